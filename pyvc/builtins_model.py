"""Assumed contracts of CPython built-ins and value methods (the trusted built-in model).

Every entry here is an *assumption* about the interpreter, listed in the evidence under
`trusted_base`.  Character-class predicates are uninterpreted functions constrained by the axioms
in `charclasses.py`, which are validated exhaustively over all code points on every run.
"""
from __future__ import annotations

import ast
import os

import z3

from . import sorts as S
from .interp import (
    ArrList, ArrStr, BoundMeth, Char, Closure, ExcV, FuncVal, GenExp, Interp, Opaque, OpaqueSeq, PRec, PyConst,
    PyRange, PyTuple, Raised, SetLit, ZRec,
)
from .sorts import Val

CHAR_PREDS = ('isdigit', 'isdecimal', 'isalpha', 'isalnum', 'isspace', 'isupper', 'islower', 'isnumeric')


def char_pred(ip: Interp, name: str, code):
    f = ip.w.uf(f'chr_{name}', z3.IntSort(), z3.BoolSort())
    return f(code)


def str_pred(ip: Interp, name: str, s):
    """str.isdigit() etc. on a z3 String: all characters satisfy the predicate and non-empty."""
    f = ip.w.uf(f'str_{name}', z3.StringSort(), z3.BoolSort())
    return f(s)


def function(ip: Interp, fn: PyConst, args, kwargs, n):
    name = fn.name
    kind = fn.kind
    if kind == 'excclass':
        info = {'args': args}
        if args:
            info['msg'] = args[-1]
        return ip.new_exc(name, args, info=info)
    if kind == 'record' and S.RECORD_MUTABLE.get(name) and name in ip.w.registry.classes and not (ip.spec and kwargs):
        return construct_z(ip, name, args, kwargs, n)
    if kind == 'record':
        fields = S.RECORD_FIELDS[name]
        vals = {}
        for (fname, fsort), a in zip(fields, args):
            vals[fname] = ip.coerce_sort(a, S.sort_of(fsort), n)
        for k, v in kwargs.items():
            fsort = dict(fields)[k]
            vals[k] = ip.coerce_sort(v, S.sort_of(fsort), n)
        if len(vals) != len(fields):
            defaults = getattr(ip.w.registry, 'record_defaults', {}).get(name, {})
            for fname, fsort in fields:
                if fname not in vals:
                    if fname not in defaults:
                        ip.oos(f'record {name}: missing field {fname}', n)
                    vals[fname] = ip.coerce_sort(defaults[fname], S.sort_of(fsort), n)
        t = S.rec_make(name, **vals)
        if S.RECORD_MUTABLE.get(name):
            return ZRec.detached(name, t)
        return t
    if kind == 'class':
        return construct(ip, name, args, kwargs, n)
    if kind == 'spec' and fn.obj.name.startswith('uf_'):
        # declared-only spec function: uninterpreted (its python body is used by the monitors only)
        node = fn.obj
        ret = ast.literal_eval(node.returns) if node.returns is not None else 'Val'
        zargs = []
        for a in args:
            a = a.get() if isinstance(a, ZRec) else ip.z(a)
            if isinstance(a, (Opaque, FuncVal)):
                a = a.ident
            if isinstance(a, OpaqueSeq):
                a = a.seq
            if not z3.is_expr(a):
                ip.oos(f'argument of uninterpreted spec function {node.name}', n)
            zargs.append(a)
        f = ip.w.uf(node.name + '__' + '_'.join(str(a.sort()) for a in zargs), *[a.sort() for a in zargs], _kind_sort(ret))
        return _wrap_kind(ret, f(*zargs))
    if kind == 'spec' and _is_recursive(fn.obj):
        return _rec_spec_call(ip, fn.obj, args, n)
    if kind == 'spec':
        node = fn.obj
        clo = Closure(node, {}, None, None)
        sub = ip.activation(clo, None, args, kwargs, n)
        sub.spec = True
        sub.module = None
        return sub.functional(node.body, n)
    if kind == 'modelclass':
        ip.oos(f'constructing model class {name}', n)
    if kind != 'builtin':
        ip.oos(f'call of {kind} {name}', n)

    if name == 'len':
        (x,) = args
        return length(ip, x, n)
    if name == 'isinstance':
        x, c = args
        return isinstance_(ip, x, c, n)
    if name == 'bool':
        if not args:
            return False
        return ip.truth(args[0], n)
    if name == 'int':
        (x,) = args
        if S.is_int(x) or isinstance(x, int):
            return ip.as_int(x)
        if isinstance(x, bool) or S.is_bool(x):
            return ip.as_int(x)
        return str_to_int(ip, x, n)
    if name == 'float':
        (x,) = args
        return str_to_float(ip, x, n)
    if name == 'str':
        if not args:
            return ''
        return ip.str_of(args[0], n)
    if name == 'repr':
        return ip.str_of(args[0], n, repr_=True)
    if name == 'format':
        value, spec = args
        if spec is None:
            return ip.as_str(value, n)
        return ip.w.uf('py_format', z3.StringSort(), z3.StringSort(), z3.StringSort())(ip.as_str(value, n), ip.as_str(spec, n))
    if name == 'unknown_value':
        # an external function nothing is claimed about (clocks, interpreter limits, memory statistics): some value, no effect
        ip.w.assumptions.add('sys.getrecursionlimit / sys.setrecursionlimit / time.thread_time / memory_use: return some value, raise nothing, touch nothing the contracts see')
        return Opaque('any', ip.p.fresh('extern', z3.IntSort()))
    if name in ('exc_cls', 'exc_id'):
        (e,) = args
        return e.cls if name == 'exc_cls' else e.eid
    if name in ('err_cls', 'err_id'):
        O = S.UNIONS['Outcome']
        x = ip.coerce_sort(args[0], O, n)
        return O.o_err__cls(x) if name == 'err_cls' else O.o_err__eid(x)
    if name == 'display_width':
        # tatsu.util.strtools.unicode_display_len: the sum of a per-character width -- an uninterpreted function of the string
        # that is additive over concatenation (instances recorded where strings are built, see Interp.str_concat)
        (x,) = args
        ip.w.assumptions.add('unicode_display_len(text) is modelled as an uninterpreted non-negative function of the text that is additive over '
                             'concatenation (it is a sum over the characters); instances are generated for every string the verified code builds; '
                             'sampled against the real function by the bounded run of C13')
        return ip.width_of(x, n)
    if name in ('min', 'max') and len(args) == 1 and isinstance(args[0], GenExp):
        return _extremum(ip, args[0], name == 'max', n)
    if name in ('min', 'max'):
        if len(args) == 1:
            ip.oos(f'{name} of an iterable', n)
        vals = [ip.as_int(a, n) for a in args]
        out = vals[0]
        for v in vals[1:]:
            out = z3.If(v < out, v, out) if name == 'min' else z3.If(v > out, v, out)
        return out
    if name == 'abs':
        v = ip.as_int(args[0], n)
        return z3.If(v < 0, -v, v)
    if name in ('all', 'any'):
        (g,) = args
        return quantify(ip, g, name == 'all', n)
    if name == 'callable':
        (x,) = args
        if isinstance(x, (Closure, BoundMeth, FuncVal)):
            return True
        if x is None:
            return False
        if isinstance(x, Opaque):
            return ip.w.uf('py_callable', z3.IntSort(), z3.BoolSort())(x.ident)
        if S.is_val(x):
            return z3.And(Val.is_vobj(x), ip.w.uf('py_callable', z3.IntSort(), z3.BoolSort())(Val.oid(x)))
        return False
    if name == 'closedlist':
        (x,) = args
        return Val.vclist(ip.as_seq(x, n))
    if name == 'list':
        if not args:
            return z3.Empty(S.SeqVal)
        (x,) = args
        if isinstance(x, OpaqueSeq):
            return x
        return ip.as_seq(x, n)
    if name == 'tuple':
        if not args:
            return PyTuple([])
        (x,) = args
        if isinstance(x, PyTuple):
            return x
        if isinstance(x, GenExp):
            return ElemBag(_image_set(ip, x, n))
        return Val.vtup(ip.as_seq(x, n))
    if name == 'dict':
        if not args:
            return Val.vdict(z3.K(z3.StringSort(), z3.BoolVal(False)), z3.K(z3.StringSort(), Val.none))
        (x,) = args
        if ip.dictview(x) is not None:
            gk, _, gv, _ = ip.dictview(x)
            return PRec(x.cls if isinstance(x, PRec) else 'DictD', {'dkeys': gk(), 'dvals': gv()})
        ip.oos('dict() of this value', n)
    if name == 'set':
        if not args:
            return z3.K(z3.StringSort(), z3.BoolVal(False))
        (x,) = args
        if z3.is_expr(x) and z3.is_array(x):
            return x
        if isinstance(x, ElemBag):
            return x.members
        if isinstance(x, GenExp):
            return _image_set(ip, x, n)
        if isinstance(x, PyTuple) and not x.items:
            return z3.K(z3.StringSort(), z3.BoolVal(False))
        if x is None:
            ip.oos('set(None)', n)
        ip.oos('set() of a sequence', n)
    if name == 'next':
        (it,) = args
        if isinstance(it, PyTuple) and it.items and it.items[0] == '__iter__':
            d = it.items[1]
            if isinstance(d, PRec) and 'okeys' in d.f:
                ks = d.f['okeys']
                ip.p.oblige('safety', z3.Length(ks) > 0, n, 'next() on a non-empty iterator (StopIteration)', tag='safety')
                return ks[0]
        ip.oos('next() of unsupported iterator', n)
    if name == 'iter':
        (x,) = args
        return PyTuple(['__iter__', x])
    if name == 'getattr':
        obj, attr, *default = args
        if isinstance(obj, PRec) and ip.w.registry.classes.get(obj.cls, {}).get('attrview') \
                and (not isinstance(attr, str) or (attr not in obj.f and ip.find_method(obj.cls, attr)[0] is None)):
            # an object seen as its attribute table (dkeys = names present, dvals = values): getattr(obj, <symbolic name>)
            k = ip.as_str(attr, n)
            if default:
                return z3.If(z3.Select(obj.f['dkeys'], k), z3.Select(obj.f['dvals'], k), ip.to_val(default[0], n))
            if not ip.spec:
                ip.p.oblige('safety', z3.Select(obj.f['dkeys'], k), n, 'attribute present (AttributeError)', tag='safety')
            return z3.Select(obj.f['dvals'], k)
        if not isinstance(attr, str):
            ip.oos('getattr with dynamic name', n)
        if S.is_val(obj) and default and not attr.startswith('__'):
            # getattr(value, 'name', default) on a value nothing is known about: present or not, an uninterpreted fact of the value
            has = ip.w.uf(f'hasv_{attr}', Val, z3.BoolSort())(obj)
            val = ip.w.uf(f'attrv_{attr}', Val, Val)(obj)
            return z3.If(has, val, ip.to_val(default[0], n))
        if isinstance(obj, Opaque):
            decl = ip.w.registry.opaque_attrs.get((obj.kind, attr)) or ip.w.registry.opaque_attrs.get(('*', attr))
            if decl is None and default:
                # attribute presence unknown: an uninterpreted choice
                ip.oos(f'getattr default on undeclared opaque attribute {attr}', n)
        try:
            return ip.getattr(obj, attr, n)
        except Exception:
            if default:
                return default[0]
            raise
    if name == 'hasattr':
        obj, attr = args
        if isinstance(obj, PRec) and ip.w.registry.classes.get(obj.cls, {}).get('attrview') and not isinstance(attr, str):
            return z3.Select(obj.f['dkeys'], ip.as_str(attr, n))
        if isinstance(obj, PRec):
            return attr in obj.f or ip.find_method(obj.cls, attr)[0] is not None
        if isinstance(obj, Opaque):
            return ip.w.uf(f'hasattr_{attr}', z3.IntSort(), z3.BoolSort())(obj.ident)
        if S.is_val(obj):
            return ip.w.uf(f'hasv_{attr}', Val, z3.BoolSort())(obj)
        ip.oos('hasattr on this value', n)
    if name == 'ord':
        (x,) = args
        if isinstance(x, Char):
            return x.code
        ip.oos('ord of non-char', n)
    if name == 'old':
        return args[0]
    if name == 'type':
        (x,) = args
        if isinstance(x, ZRec):
            return PyConst('record', x.cls)
        if isinstance(x, PRec):
            return PyConst('class', x.cls)
        if S.is_record(x):
            return PyConst('record', S.record_name(x.sort()))
        ip.oos('type() of this value', n)
    if name in ('out_ok', 'out_frame', 'out_ret', 'out_cut', 'out_fail_frame'):
        f, fr = args
        if isinstance(f, BoundMeth) and isinstance(f.recv, Opaque) and isinstance(f.target, PyConst) and f.target.kind == 'opaquemethod':
            f = FuncVal(f.target.name, f.recv.ident)  # `node._parse` as a function value
        ident = f.ident if isinstance(f, (FuncVal, Opaque)) else None
        if ident is None:
            ip.oos(f'{name}: first argument must be a parse function', n)
        fr = fr.get() if isinstance(fr, ZRec) else fr
        rs = {'out_ok': z3.BoolSort(), 'out_frame': S.RECORDS['Frame'], 'out_fail_frame': S.RECORDS['Frame'], 'out_ret': Val, 'out_cut': z3.BoolSort()}[name]
        return ip.w.uf(name, z3.IntSort(), S.RECORDS['Frame'], rs)(ident, fr)
    if name == 'boundcall':
        # tatsu.util.typetools.boundcall(fun, known, *args, **kwargs): calls `fun` with the arguments its
        # signature accepts -- assumed contract: behaves as the call fun(*args)
        ip.w.assumptions.add('boundcall(fun, known, *args) is assumed to behave as fun(*args) for the arguments fun accepts')
        f, _known, *rest = args
        if isinstance(f, FuncVal) and f.contract == 'ACTION':
            from .interp import StarV
            node = rest[0]
            params = next((r.value for r in rest[1:] if isinstance(r, StarV)), PyTuple([]))
            kwparams = kwargs.get('**', Val.vdict(z3.K(z3.StringSort(), z3.BoolVal(False)), z3.K(z3.StringSort(), Val.none)))
            c = ip.w.registry.generic['ACTION']
            return ip.call_contract(c, None, [f, node, params, kwparams], {}, n)
        if isinstance(f, FuncVal):
            c = ip.w.registry.generic[f.contract]
            nparams = len(c.sig) - 1
            return ip.call_contract(c, None, [f, *rest[:nparams]], {}, n)
        return ip.call(f, rest, kwargs, n)
    if name == 'ast_walk':
        (t,) = args
        ip.w.assumptions.add('ast.walk(tree) yields every node of the tree (assumed contract on the stdlib)')
        return OpaqueSeq('AstNode', ip.w.uf('ast_walk', z3.IntSort(), z3.SeqSort(z3.IntSort()))(t.ident))
    if name in ('ismethod', 'is_func'):
        (f,) = args
        if isinstance(f, (FuncVal, Opaque)):
            return ip.w.uf(f'py_{name}', z3.IntSort(), z3.BoolSort())(f.ident)
        return False
    if name in ('is_ok', 'is_err', 'ok_res', 'is_failure'):
        O = S.UNIONS['Outcome']
        x = ip.coerce_sort(args[0], O, n)
        if name == 'is_ok':
            return O.is_o_ok(x)
        if name == 'is_err':
            return O.is_o_err(x)
        if name == 'ok_res':
            return O.o_ok__res(x)
        return z3.And(O.is_o_err(x), ip.w.exc.is_sub(O.o_err__cls(x), args[1]))
    if name == 'same_func':
        f, ident = args
        if f is None:
            return True
        if isinstance(ident, (FuncVal, Opaque)):
            return f.ident == ident.ident
        return f.ident == ip.as_int(ident, n)
    if name == 'store':
        a, k, v = args
        return z3.Store(a, ip.coerce_sort(k, a.sort().domain(), n), ip.coerce_sort(v, a.sort().range(), n))
    if name == 'o_none':
        return S.UNIONS['Outcome'].o_none
    if name == 'o_ok':
        return S.UNIONS['Outcome'].o_ok(ip.coerce_sort(args[0], S.RECORDS['RuleResultR'], n))
    if name in ('forall_keys', 'exists_key'):
        d, f = args
        if z3.is_expr(d) and z3.is_array(d):
            ksort = d.sort().domain()  # a set (Array K Bool): the quantifier ranges over the key sort
        elif S.is_val(d) or ip.dictview(d) is not None and not isinstance(d, PRec):
            ksort = z3.StringSort()  # a dict value / a string-keyed dict record
        else:
            ks = d.f['okeys'] if isinstance(d, PRec) and 'okeys' in d.f else (d.f['dkeys'] if 'dkeys' in d.f else d.f['mkeys'])
            ksort = ks.sort().basis() if S.is_seq(ks) else ks.sort().domain()
        k = z3.FreshConst(ksort, 'key')
        body = ip.call_closure(f, None, [k], {}, n)
        body = ip.truth(body, n)
        body = body if z3.is_expr(body) else z3.BoolVal(body)
        return z3.ForAll([k], body) if name == 'forall_keys' else z3.Exists([k], body)
    if name == 'strval':
        # specification only: the text of a value that is a string (the cast python does implicitly when a str is expected)
        (x,) = args
        return ip.as_str(x, n)
    if name == 'dataclasses_is_dataclass':
        (x,) = args
        return isinstance(x, PRec) and bool(ip.w.registry.classes.get(x.cls, {}).get('attrview'))
    if name == 'dataclasses_replace':
        # dataclasses.replace(obj, **changes) on an attribute-view record: a NEW object of the same class whose constructor
        # receives, for every init field, the change when one is given and obj's current value otherwise (ghost `cvals`);
        # the attribute values after __post_init__ are not modelled (fresh).  A change naming something that is not an
        # init field raises (TypeError / ValueError): safety obligation.
        (obj,) = args
        if not (isinstance(obj, PRec) and ip.w.registry.classes.get(obj.cls, {}).get('attrview')):
            ip.oos('dataclasses.replace on this object', n)
        ch = kwargs.get('**')
        if ch is None or set(kwargs) - {'**'}:
            ip.oos('dataclasses.replace with explicit keywords', n)
        dv = ip.dictview(ch)
        if dv is not None:
            ck, cv = dv[0](), dv[2]()
        else:
            ch = ip.to_val(ch, n)
            ip.p.oblige('type', Val.is_vdict(ch), n, '** argument is a mapping')
            ck, cv = Val.dkeys(ch), Val.dvals(ch)
        k = ip.p.fresh('k', z3.StringSort())
        noninit = ip.w.uf('uf_noninit__String', z3.StringSort(), z3.BoolSort())  # same symbol as the spec function uf_noninit
        if not ip.spec:
            ip.p.oblige('safety', z3.ForAll([k], z3.Implies(z3.Select(ck, k), z3.And(z3.Select(obj.f['dkeys'], k), z3.Not(noninit(k))))), n,
                        'dataclasses.replace: every change names an init field of the object (TypeError / ValueError)', tag='safety')
        new = PRec(obj.cls, {'dkeys': obj.f['dkeys'], 'dvals': ip.p.fresh('replaced_vals', obj.f['dvals'].sort()),
                             'cvals': ip.p.fresh('ctor_args', obj.f['dvals'].sort())})
        ax = z3.ForAll([k], z3.Select(new.f['cvals'], k) == z3.If(z3.Select(ck, k), z3.Select(cv, k), z3.Select(obj.f['dvals'], k)))
        ip.p.path_axioms.append(ax)
        ip.p.pc.append(ax)
        ip.w.assumptions.add('dataclasses.replace(obj, **changes): a new object constructed from obj\'s field values with the changes laid over them '
                             '(trusted model of the standard library; __post_init__ normalisation of the result is not modelled)')
        return new
    if name == 'is_suffix':
        a, b = args
        return z3.SuffixOf(a, b)
    if name == 'grown':
        new, old = args
        b = ip.seq_from_end(old, 1)
        below = b[0] if b is not None else z3.Extract(old, 0, z3.Length(old) - 1)
        n0 = z3.Length(below)
        return z3.And(z3.Length(new) >= n0 + 1, z3.Extract(new, 0, n0) == below)
    if name == 'memo_ok':
        d, ln = args
        O = S.UNIONS['Outcome']
        R = S.RECORDS['RuleResultR']
        k = z3.Const('k!memo', d.f['mkeys'].sort().domain())
        v = z3.Select(d.f['mvals'], k)
        npos = S.rec_get(O.o_ok__res(v), 'newpos')
        return z3.ForAll([k], z3.Implies(
            z3.Select(d.f['mkeys'], k),
            # a remembered failure is a TatSu parse exception and never a raw FailedSemantics (C06: what is replayed from the
            # table must fail like a syntax mismatch, i.e. be the FailedParse the semantic failure was converted to)
            z3.And(z3.Implies(O.is_o_err(v), z3.And(ip.w.exc.is_sub(O.o_err__cls(v), 'ParseException'),
                                                    z3.Not(ip.w.exc.is_sub(O.o_err__cls(v), 'FailedSemantics')))),
                   z3.Implies(O.is_o_ok(v), z3.And(npos >= 0, npos <= ip.as_int(ln, n))),
                   z3.Not(O.is_o_none(v)))))
    if name == 'outcome_ok':
        v, ln = args
        O = S.UNIONS['Outcome']
        v = ip.coerce_sort(v, O, n)
        npos = S.rec_get(O.o_ok__res(v), 'newpos')
        return z3.And(z3.Implies(O.is_o_err(v), z3.And(ip.w.exc.is_sub(O.o_err__cls(v), 'ParseException'),
                                                       z3.Not(ip.w.exc.is_sub(O.o_err__cls(v), 'FailedSemantics')))),
                      z3.Implies(O.is_o_ok(v), z3.And(npos >= 0, npos <= ip.as_int(ln, n))),
                      z3.Not(O.is_o_none(v)))
    if name == 'submap':
        d, old = args
        k = z3.Const('k!sub', d.f['mkeys'].sort().domain())
        return z3.ForAll([k], z3.Implies(z3.Select(d.f['mkeys'], k),
                                         z3.And(z3.Select(old.f['mkeys'], k), z3.Select(d.f['mvals'], k) == z3.Select(old.f['mvals'], k))))
    if name == 'top_only':
        new, old = args
        a = ip.seq_from_end(new, 1)
        b = ip.seq_from_end(old, 1)
        if a is not None and b is not None:
            return a[0] == b[0]
        return z3.And(z3.Length(new) == z3.Length(old),
                      z3.Extract(new, 0, z3.Length(new) - 1) == z3.Extract(old, 0, z3.Length(old) - 1))
    if name == 'exc_inside':
        (e,) = args
        v = e.info.get('inside')
        return True if v is None else v
    if name == 'exc_is':
        e, cname = args
        return ip.w.exc.is_sub(e.cls, cname)
    if name in ('dict_with', 'dict_get', 'dict_has'):
        d = args[0]
        if isinstance(d, ZRec):
            d = d.get()
        if S.is_val(d):
            keys, vals, mk = Val.dkeys(d), Val.dvals(d), lambda k, v: Val.vdict(k, v)
        elif S.is_record(d):
            rn = S.record_name(d.sort())
            keys, vals = S.rec_get(d, 'dkeys'), S.rec_get(d, 'dvals')
            mk = lambda k, v: S.rec_make(rn, dkeys=k, dvals=v)
        else:
            ip.oos(f'{name} on {type(d).__name__}', n)
        k = ip.as_str(args[1], n)
        if name == 'dict_has':
            return z3.Select(keys, k)
        if name == 'dict_get':
            return z3.If(z3.Select(keys, k), z3.Select(vals, k), Val.none)
        return mk(z3.Store(keys, k, True), z3.Store(vals, k, ip.to_val(args[2], n)))
    if name == 'print':
        return None
    if name == 'range':
        if len(args) == 1:
            return PyRange(z3.IntVal(0), ip.as_int(args[0], n))
        if len(args) == 2:
            return PyRange(ip.as_int(args[0], n), ip.as_int(args[1], n))
        ip.oos('range with step', n)
    if name == 'int_ok':
        return int_lang(ip, args[0])
    if name == 'uint_ok':
        (x,) = args
        if not isinstance(x, ArrStr):
            ip.oos('uint_ok needs an array string', n)
        return uint_lang(ip, x.arr, x.lo, x.hi)
    if name == 'float_ok':
        return float_lang(ip, args[0])
    if name == 'implies':
        a, b = args
        return ip.disj([ip.neg(ip.truth(a, n)), ip.truth(b, n)])
    if name == 'sorted' or name == 'hash' or name == 'id':
        ip.oos(f'{name}()', n)
    ip.oos(f'builtin {name}', n)


def _is_recursive(node) -> bool:
    return any(isinstance(x, ast.Call) and isinstance(x.func, ast.Name) and x.func.id == node.name for x in ast.walk(node))


def _kind_sort(kind: str):
    if kind.startswith(('opaque:', 'func:')):
        return z3.IntSort()
    if kind.startswith(('seq[opaque:', 'seq[func:')):
        return z3.SeqSort(z3.IntSort())
    return S.sort_of(kind)


def _wrap_kind(kind: str, term):
    if kind.startswith(('seq[opaque:', 'seq[func:')):
        return OpaqueSeq(kind[len('seq['):-1].replace('opaque:', ''), term)
    if kind.startswith('opaque:'):
        return Opaque(kind.split(':', 1)[1], term)
    if kind.startswith('func:'):
        return FuncVal(kind.split(':', 1)[1], term)
    return term


def _rec_spec_call(ip: Interp, node, args, n):
    """recursive spec function -> z3 RecFunction (parameter/return kinds from the string annotations)"""
    w = ip.w
    kinds = [ast.literal_eval(a.annotation) if a.annotation is not None else 'Val' for a in node.args.args]
    ret = ast.literal_eval(node.returns) if node.returns is not None else 'Val'
    recs = w.__dict__.setdefault('_recfuns', {})
    if node.name not in recs:
        f = z3.RecFunction(node.name, *[_kind_sort(k) for k in kinds], _kind_sort(ret))
        recs[node.name] = f
        formals = [z3.FreshConst(_kind_sort(k), f'{node.name}_{a.arg}') for k, a in zip(kinds, node.args.args)]
        env = {a.arg: _wrap_kind(k, t) for a, k, t in zip(node.args.args, kinds, formals)}
        sub = Interp(ip.p, None, env, spec=True, fname=node.name)
        body = sub.functional(node.body, n)
        if isinstance(body, (Opaque, FuncVal)):
            body = body.ident
        if isinstance(body, ZRec):
            body = body.get()
        body = sub.coerce_sort(body, _kind_sort(ret), n) if not (z3.is_expr(body) and body.sort() == _kind_sort(ret)) else body
        z3.RecAddDefinition(f, formals, body)
    f = recs[node.name]
    zargs = []
    for a, k in zip(args, kinds):
        if isinstance(a, BoundMeth) and isinstance(a.recv, Opaque) and isinstance(a.target, PyConst) and a.target.kind == 'opaquemethod':
            a = a.recv.ident  # `node._parse` as a function value (same convention as out_ok / out_frame)
        if isinstance(a, (Opaque, FuncVal)):
            a = a.ident
        if isinstance(a, ZRec):
            a = a.get()
        zargs.append(ip.coerce_sort(a, _kind_sort(k), n))
    return _wrap_kind(ret, f(*zargs))


def construct(ip: Interp, name, args, kwargs, n):
    """instantiate a python-side record class by interpreting its real __init__."""
    info = ip.w.registry.classes[name]
    if 'fields' not in info:
        ip.oos(f'class {name} has no field declaration', n)
    rec = PRec(name, {k: _default_field(ip, s, f'{name}.{k}') for k, s in info['fields'].items()})
    init, where = ip.find_method(name, '__init__')
    if init is None:
        order = info.get('init_fields')
        if order is not None:
            # a dataclass: the generated __init__ stores its arguments into the fields, in declaration order
            if len(args) > len(order) or set(kwargs) - set(order):
                ip.oos(f'{name}(...): arguments do not fit the declared fields', n)
            given = dict(list(zip(order, args)) + list(kwargs.items()))
            for fname in order:
                if fname in given:
                    ip.setattr(rec, fname, given[fname], n)
                elif fname in info.get('init_defaults', {}):
                    ip.setattr(rec, fname, info['init_defaults'][fname], n)
                else:
                    ip.oos(f'{name}(...): missing argument {fname}', n)
        elif args or kwargs:
            ip.oos(f'{name}(...): no __init__ and no declared constructor fields', n)
        return rec
    key = f'{where[0]}:{where[1]}.__init__'
    c = ip.w.registry.get(key)
    if c is not None:
        ip.call_contract(c, rec, args, kwargs, n)
        return rec
    ip.call_closure(Closure(init, {}, where[0], where[1]), rec, args, kwargs, n)
    return rec


def construct_z(ip: Interp, name, args, kwargs, n):
    """instantiate a mutable z3 record class by interpreting its real __init__ on a fresh view."""
    if 'dkeys' in S.rec_fields(name):
        # dict subclasses (AST): AST() is empty, AST(mapping) a copy -- assumed contract of dict.__init__/update
        empty = S.rec_make(name, dkeys=z3.K(z3.StringSort(), z3.BoolVal(False)), dvals=z3.K(z3.StringSort(), Val.none))
        if not args and not kwargs:
            return ZRec.detached(name, empty)
        if len(args) == 1 and not kwargs:
            src = args[0]
            return ZRec.detached(name, ip.coerce_sort(src, S.RECORDS[name], n))
        ip.oos(f'{name}(...) with these arguments', n)
    vals = {f: _default_term(ip, fs, f'{name}.{f}') for f, fs in S.RECORD_FIELDS[name]}
    rec = ZRec.detached(name, S.rec_make(name, **vals))
    init, where = ip.find_method(name, '__init__')
    if init is None:
        ip.oos(f'no __init__ for {name}', n)
    key = f'{where[0]}:{where[1]}.__init__'
    c = ip.w.registry.get(key)
    if c is not None:
        ip.call_contract(c, rec, args, kwargs, n)
        return rec
    ip.call_closure(Closure(init, {}, where[0], where[1]), rec, args, kwargs, n)
    return rec


def _default_term(ip, sortname, hint):
    srt = S.sort_of(sortname)
    if srt == z3.IntSort():
        return z3.IntVal(0)
    if srt == z3.BoolSort():
        return z3.BoolVal(False)
    if srt == z3.StringSort():
        return z3.StringVal('')
    if srt == Val:
        return Val.none
    if isinstance(srt, z3.SeqSortRef):
        return z3.Empty(srt)
    return ip.p.fresh(hint, srt)


def _default_field(ip, sortname, hint):
    if sortname.startswith(('seq[func:', 'seq[opaque:')):
        return OpaqueSeq(sortname[len('seq['):-1].replace('opaque:', ''), z3.Empty(z3.SeqSort(z3.IntSort())))
    srt = S.sort_of(sortname)
    if srt is None:
        return None
    if srt == z3.IntSort():
        return z3.IntVal(0)
    if srt == z3.BoolSort():
        return z3.BoolVal(False)
    if srt == z3.StringSort():
        return z3.StringVal('')
    if srt == Val:
        return Val.none
    if z3.is_seq_sort(srt) if hasattr(z3, 'is_seq_sort') else isinstance(srt, z3.SeqSortRef):
        return z3.Empty(srt)
    return ip.p.fresh(hint, srt)


def length(ip: Interp, x, n):
    if isinstance(x, str):
        return len(x)
    if S.is_str(x) or S.is_seq(x):
        return z3.Length(x)
    if isinstance(x, ArrStr):
        return x.length()
    if isinstance(x, ArrList):
        return x.n
    if isinstance(x, PyTuple):
        return len(x.items)
    if isinstance(x, OpaqueSeq):
        return z3.Length(x.seq)
    if isinstance(x, Char):
        return 1
    if isinstance(x, PRec) and 'okeys' in x.f:
        return z3.Length(x.f['okeys'])
    if S.is_record(x) and S.record_name(x.sort()) == 'AbsStr':
        return S.rec_get(x, 'n')
    if S.is_val(x):
        ip.p.oblige('type', z3.Or(Val.is_vstr(x), Val.is_vlist(x), Val.is_vclist(x), Val.is_vtup(x)), n, 'len() of a sized value')
        return z3.If(Val.is_vstr(x), z3.Length(Val.s(x)),
                     z3.If(Val.is_vlist(x), z3.Length(Val.items(x)),
                           z3.If(Val.is_vclist(x), z3.Length(Val.citems(x)), z3.Length(Val.titems(x)))))
    ip.oos(f'len of {type(x).__name__}', n)


def isinstance_(ip: Interp, x, c, n):
    names = []
    if isinstance(c, PyTuple):
        names = c.items
    else:
        names = [c]
    out = []
    for cc in names:
        if isinstance(cc, Opaque) and cc.kind == 'ExcClass' and isinstance(x, ExcV):
            # a class known only as a value (an element of payload.raises()): membership is a function of (class of x, that class)
            out.append(ip.w.uf('exc_isinstance', z3.IntSort(), z3.IntSort(), z3.BoolSort())(x.cls, cc.ident))
            continue
        if not isinstance(cc, PyConst):
            ip.oos('isinstance with non-class', n)
        out.append(_isinstance1(ip, x, cc, n))
    return ip.disj(out)


def _isinstance1(ip, x, cc: PyConst, n):
    name = cc.name
    if isinstance(x, ArrList):
        return name == 'list'
    CS = S.UNIONS.get('ColorSpec')
    if CS is not None and z3.is_expr(x) and x.sort() == CS:
        if name == 'RGB':
            return CS.is_c_rgb(x)
        if name == 'int':
            return CS.is_c_idx(x)
        return False
    O = S.UNIONS.get('Outcome')
    if O is not None and z3.is_expr(x) and x.sort() == O:
        if cc.kind == 'excclass':
            return z3.And(O.is_o_err(x), ip.w.exc.is_sub(O.o_err__cls(x), name))
        if cc.kind in ('record', 'class') and name == 'RuleResultR':
            return O.is_o_ok(x)
        return False
    if isinstance(x, ExcV):
        if cc.kind == 'excclass':
            return ip.w.exc.is_sub(x.cls, name)
        return False
    if cc.kind == 'excclass':
        if S.is_val(x):
            # values that may hold an exception (memo entries): tagged vobj with exception kind
            return z3.And(Val.is_vobj(x), Val.ocls(x) >= 0, Val.ocls(x) < len(ip.w.exc.names),
                          ip.w.exc.is_sub(Val.ocls(x), name))
        return False
    if cc.kind == 'astclass':
        if isinstance(x, Opaque) and x.kind == 'AstNode':
            cls = ip.w.uf('astnode_class', z3.IntSort(), z3.IntSort())(x.ident)
            return cls == ip.kind_id('ast.' + name)
        return False
    if isinstance(x, Opaque) and cc.kind == 'class' and x.kind in ip.w.registry.classes.get(name, {}).get('opaque_kinds', ()):
        return True
    if isinstance(x, Opaque) and cc.kind == 'class' and x.kind in ip.w.registry.classes.get(name, {}).get('maybe_kinds', ()):
        # objects of this opaque kind may or may not be instances of the class: an uninterpreted fact about the object
        return ip.w.uf(f'isinst_{name}', z3.IntSort(), z3.BoolSort())(x.ident)
    if isinstance(x, Opaque):
        if cc.kind == 'modelclass' and x.kind == 'Model':
            cls = ip.w.uf('model_class', z3.IntSort(), z3.IntSort())(x.ident)
            ip.p.assume(ip.w.models.in_range(cls))
            return ip.w.models.is_sub(cls, name)
        return False
    if cc.kind in ('class', 'record'):
        if isinstance(x, (PRec, ZRec)):
            info = ip.w.registry.classes.get(x.cls, {})
            return x.cls == name or name in info.get('isa', [])
        if S.is_record(x):
            rn = S.record_name(x.sort())
            return rn == name or name in ip.w.registry.classes.get(rn, {}).get('isa', [])
        if S.is_record(x):
            return S.record_name(x.sort()) == name
        if S.is_val(x):
            # record classes embedded in Val are tagged vobj(kind)
            return z3.And(Val.is_vobj(x), Val.ocls(x) == ip.kind_id(name))
        return False
    if cc.kind == 'builtin':
        if isinstance(x, (bool, int, str)) or x is None:
            py = {'str': str, 'int': int, 'bool': bool, 'list': list, 'tuple': tuple, 'dict': dict}.get(name)
            if py is None:
                return False
            return isinstance(x, py)
        if S.is_str(x) or isinstance(x, (ArrStr, Char)):
            return name == 'str'
        if S.is_int(x):
            return name == 'int'
        if S.is_bool(x):
            return name in ('bool', 'int')
        if S.is_seq(x):
            return name == 'list'
        if isinstance(x, PyTuple):
            return name == 'tuple'
        if isinstance(x, (PRec, ZRec)):
            info = ip.w.registry.classes.get(x.cls, {})
            return name in info.get('isa', [])
        if S.is_val(x):
            if name == 'closedlist':
                return Val.is_vclist(x)
            if name == 'list':
                return z3.Or(Val.is_vlist(x), Val.is_vclist(x))
            if name == 'str':
                return Val.is_vstr(x)
            if name == 'int':
                return z3.Or(Val.is_vint(x), Val.is_vbool(x))
            if name == 'bool':
                return Val.is_vbool(x)
            if name == 'tuple':
                return Val.is_vtup(x)
            if name == 'dict':
                return Val.is_vdict(x)
            if name in ('set', 'frozenset'):
                # sets are not a constructor of Val: some other object, recognised by an uninterpreted predicate
                return z3.And(Val.is_vobj(x), ip.w.uf(f'val_is_{name}', Val, z3.BoolSort())(x))
            if name == 'type':
                return ip.w.uf('val_is_type', Val, z3.BoolSort())(x)
            ip.oos(f'isinstance(Val, {name})', n)
        return False
    ip.oos(f'isinstance against {cc.kind} {name}', n)


class ElemBag:
    """tuple(<generator over a set of strings>): only its set of elements is modelled (order and multiplicity are
    not); the only operations offered are set()/frozenset() and truth."""

    def __init__(self, members):
        self.members = members


def _image_set(ip: Interp, g, n):
    """{ f(k) for k in K } for a set of strings K (Array String Bool) and an element expression f without effects:
    a fresh set M with  forall k. K[k] -> M[f(k)]  and  forall s. M[s] -> K[w(s)] and f(w(s)) == s  (w: Skolem function)."""
    node = g.node
    owner: Interp = g.interp
    if len(node.generators) != 1 or node.generators[0].ifs:
        ip.oos('generator over a set with conditions / several loops', n)
    gen = node.generators[0]
    sub = Interp(ip.p, owner.module, dict(owner.env), spec=True, cls=owner.cls, fname=owner.fname + '<genexp>')
    sub.contract = owner.contract
    K = sub.ev(gen.iter)
    if isinstance(K, ElemBag):
        K = K.members
    if isinstance(K, PyTuple) and not K.items:
        return z3.K(z3.StringSort(), z3.BoolVal(False))
    if not (z3.is_expr(K) and z3.is_array(K) and K.sort().domain() == z3.StringSort()):
        ip.oos('generator over something that is not a set of strings', n)
    k = ip.p.fresh('k', z3.StringSort())
    sub.assign(gen.target, k)
    fk = sub.as_str(sub.ev(node.elt), n)
    M = ip.p.fresh('image', K.sort())
    w = z3.Function(f'witness!{ip.p.counter}', z3.StringSort(), z3.StringSort())
    sv = ip.p.fresh('s', z3.StringSort())
    ip.p.path_axioms.append(z3.ForAll([k], z3.Implies(z3.Select(K, k), z3.Select(M, fk))))
    ip.p.path_axioms.append(z3.ForAll([sv], z3.Implies(z3.Select(M, sv), z3.And(z3.Select(K, w(sv)), z3.substitute(fk, (k, w(sv))) == sv))))
    return M


def quantify(ip: Interp, g, universal: bool, n):
    """all()/any() over a generator expression with a single `for` over a sequence."""
    if not isinstance(g, GenExp):
        ip.oos('all/any over a non-generator', n)
    node = g.node
    owner: Interp = g.interp
    env = dict(owner.env)
    sub = Interp(ip.p, owner.module, env, spec=True, cls=owner.cls, fname=owner.fname + '<genexp>')
    sub.contract = owner.contract
    ks = []
    rng = []
    for gen in node.generators:
        seqv = sub.ev(gen.iter)
        k = ip.p.fresh('q', z3.IntSort())
        ks.append(k)
        if isinstance(seqv, PyRange):
            # bind the range variable itself so that array reads `a[k]` are usable triggers
            sub.assign(gen.target, k)
            rng += [k >= seqv.lo, k < seqv.hi]
        elif isinstance(seqv, ArrStr):
            # quantify over the absolute index of the underlying array: slices of one string then range over the same
            # terms `arr[k]`, and the solver relates them without arithmetic matching
            sub.assign(gen.target, Char(z3.Select(seqv.arr, k)))
            rng += [k >= seqv.lo, k < seqv.hi]
        else:
            ln, getter = owner.iter_access(seqv, n)
            sub.assign(gen.target, getter(k))
            rng += [k >= 0, k < ln]
        for c in gen.ifs:
            t = sub.truth(sub.ev(c), c)
            rng.append(t if z3.is_expr(t) else z3.BoolVal(t))
    body = sub.truth(sub.ev(node.elt), node)
    guard = z3.And(*rng)
    body = body if z3.is_expr(body) else z3.BoolVal(body)
    if universal:
        return z3.ForAll(ks, z3.Implies(guard, body))
    return z3.Exists(ks, z3.And(guard, body))


def _extremum(ip: Interp, g, is_max: bool, n):
    """max()/min() of an int-valued generator expression with one `for`: a fresh integer that bounds every element and is
    attained by one (Skolem index); an empty iterable raises ValueError (safety obligation)"""
    node = g.node
    owner: Interp = g.interp
    if len(node.generators) != 1 or node.generators[0].ifs:
        ip.oos('max/min over a filtered or nested generator', n)
    gen = node.generators[0]

    def elem_at(idx):
        sub = Interp(ip.p, owner.module, dict(owner.env), spec=True, cls=owner.cls, fname=owner.fname + '<genexp>')
        sub.contract = owner.contract
        seqv = sub.ev(gen.iter)
        ln, getter = owner.iter_access(seqv, n)
        sub.assign(gen.target, getter(idx))
        return ln, sub.as_int(sub.ev(node.elt), n)

    k = z3.FreshConst(z3.IntSort(), 'x')
    ln, ek = elem_at(k)
    if not ip.spec:
        ip.p.oblige('safety', ln > 0, n, 'max()/min() of a non-empty iterable (ValueError)', tag='safety')
    m = ip.p.fresh('extremum', z3.IntSort())
    wit = ip.p.fresh('attained_at', z3.IntSort())
    _, ew = elem_at(wit)
    ax = z3.ForAll([k], z3.Implies(z3.And(k >= 0, k < ln), (ek <= m) if is_max else (ek >= m)))
    ip.p.path_axioms.append(ax)
    ip.p.pc.append(ax)
    ip.p.assume(z3.Implies(ln > 0, z3.And(wit >= 0, wit < ln, ew == m)))
    return m


def _unused_quantify_tail(k, guard, body, universal):
    if universal:
        return z3.ForAll([k], z3.Implies(guard, body))
    return z3.Exists([k], z3.And(guard, body))


# --------------------------------------------------------------------------- str -> number


def int_lang(ip: Interp, s):
    """`s` is in the language accepted by int(): [+-]?D(_?D)* with D a decimal digit
    (surrounding whitespace not considered).  Stated over array strings only."""
    if not isinstance(s, ArrStr):
        return ip.w.uf('int_ok', z3.StringSort(), z3.BoolSort())(ip.as_str(s))
    lo = z3.If(z3.And(s.length() > 0, z3.Or(z3.Select(s.arr, s.lo) == 43, z3.Select(s.arr, s.lo) == 45)), s.lo + 1, s.lo)
    return uint_lang(ip, s.arr, lo, s.hi)


def uint_lang(ip: Interp, arr, lo, hi):
    dec = lambda c: char_pred(ip, 'isdecimal', c)
    k = z3.Int('k!u')
    return z3.And(
        lo < hi,
        dec(z3.Select(arr, lo)),
        dec(z3.Select(arr, hi - 1)),
        z3.ForAll([k], z3.Implies(
            z3.And(k >= lo, k < hi),
            z3.Or(dec(z3.Select(arr, k)),
                  z3.And(z3.Select(arr, k) == 95, dec(z3.Select(arr, k - 1)), dec(z3.Select(arr, k + 1)))))),
    )


def str_to_int(ip: Interp, x, n):
    if isinstance(x, ArrStr):
        ip.p.oblige('safety', int_lang(ip, x), n, 'int(s): s is a decimal integer literal (ValueError)', tag='safety')
        return ip.w.uf('int_of_chars', z3.ArraySort(z3.IntSort(), z3.IntSort()), z3.IntSort(), z3.IntSort(), z3.IntSort())(x.arr, x.lo, x.hi)
    s = ip.as_str(x, n)
    ok = ip.w.uf('int_ok', z3.StringSort(), z3.BoolSort())(s)
    ip.p.oblige('safety', ok, n, 'int(s): s is an integer literal (ValueError)', tag='safety')
    return ip.w.uf('int_of_str', z3.StringSort(), z3.IntSort())(s)


def float_lang(ip: Interp, s: ArrStr):
    """uninterpreted: `float()` accepts the slice.  No definition is given to the prover; the only
    fact about it comes from match_float's bounded lemma."""
    if os.environ.get('PYVC_FLOAT_UF'):
        return ip.w.uf('float_ok', z3.ArraySort(z3.IntSort(), z3.IntSort()), z3.IntSort(), z3.IntSort(), z3.BoolSort())(s.arr, s.lo, s.hi)
    return float_lang_def(ip, s)


def float_lang_def(ip: Interp, s: ArrStr):
    """[+-]? D(_?D)* ( . (D(_?D)*)? )? ( [eE] [+-]? D(_?D)* )?   (the subset of float() inputs that
    start with a digit run; float() also accepts '.5', 'inf', 'nan' which the matcher never produces)"""
    arr = s.arr
    a, d, e, f = [ip.p.fresh(x, z3.IntSort()) for x in ('fa', 'fd', 'fe', 'ff')]
    sign = lambda p: z3.Or(z3.Select(arr, p) == 43, z3.Select(arr, p) == 45)
    # a: start of int digits, d: end of int digits (dot position or end), e: end of fraction, f: start of exponent digits
    return z3.Exists([a, d, e, f], z3.And(
        z3.Or(a == s.lo, z3.And(a == s.lo + 1, sign(s.lo))),
        uint_lang(ip, arr, a, d),
        z3.Or(e == d,
              z3.And(z3.Select(arr, d) == 46, z3.Or(e == d + 1, uint_lang(ip, arr, d + 1, e)))),
        z3.Or(z3.And(e == s.hi, f == e),
              z3.And(z3.Or(z3.Select(arr, e) == 101, z3.Select(arr, e) == 69),
                     z3.Or(f == e + 1, z3.And(f == e + 2, sign(e + 1))),
                     uint_lang(ip, arr, f, s.hi))),
        d <= s.hi, e <= s.hi,
    ))


def str_to_float(ip: Interp, x, n):
    if isinstance(x, ArrStr):
        ip.p.oblige('safety', float_lang(ip, x), n, 'float(s): s is a float literal (ValueError)', tag='safety')
        fid = ip.w.uf('float_of_chars', z3.ArraySort(z3.IntSort(), z3.IntSort()), z3.IntSort(), z3.IntSort(), z3.IntSort())(x.arr, x.lo, x.hi)
        return Val.vobj(z3.IntVal(ip.kind_id('float')), fid)
    ip.oos('float() of non-array string', n)


# --------------------------------------------------------------------------- methods on values


def method(ip: Interp, recv, name, t: PyConst, args, kwargs, n):
    if t.kind == 'ntmethod' and name == '_replace':
        out = recv
        for k, v in kwargs.items():
            cur = S.rec_get(out, k)
            out = S.rec_set(out, k, ip.coerce_sort(v, cur.sort(), n))
        return out
    if t.kind == 'dictmethod':
        return dict_method(ip, recv, t.name, args, kwargs, n)
    if t.kind == 'memomethod':
        d = recv
        ksort = d.f['mkeys'].sort().domain()
        if name == 'get':
            k = ip.coerce_sort(args[0], ksort, n)
            default = args[1] if len(args) > 1 else None
            return z3.If(z3.Select(d.f['mkeys'], k), z3.Select(d.f['mvals'], k),
                         ip.coerce_sort(default, d.f['mvals'].sort().range(), n))
        ip.oos(f'memo-table method {name}', n)
    if t.kind == 'listmethod':
        return list_method(ip, recv, name, args, n)
    if t.kind == 'ufmethod':
        fname, rs = t.name.split(':')
        return ip.w.uf(f'{fname}__Int', z3.IntSort(), S.sort_of(rs))(recv.ident)
    if t.kind == 'attrcall':
        kind, attr, ident = t.obj
        return ip.opaque_value(t.name, f'{kind}.{attr}', ident)
    if t.kind == 'opaquemethod':
        if t.name == 'NOOP':
            ip.w.assumptions.add(f'{recv.kind}.{name}: assumed to modify nothing visible to the parse state and not to raise')
            return None
        if t.name in ip.w.registry.generic:
            return ip.call_contract(ip.w.registry.generic[t.name], None, [FuncVal(t.name, recv.ident), *args], kwargs, n)
        ip.oos(f'opaque method {name}', n)
    if t.kind == 'supermethod':
        # super().m(...): the next definition of m along the declared MRO after the class of the running function
        if not isinstance(recv, PRec):
            ip.oos(f'super().{name} on this receiver', n)
        mro = ip.w.registry.classes.get(recv.cls, {}).get('mro', [])
        names = [k.split(':')[1] for k in mro]
        start = names.index(ip.cls) + 1 if ip.cls in names else 0
        for key in mro[start:]:
            rel, cname = key.split(':')
            cdef = ip.w.repo.find_class(rel, cname)
            if cdef is None:
                continue
            for child in cdef.body:
                if isinstance(child, ast.FunctionDef) and child.name == name:
                    ckey = f'{rel}:{cname}.{name}'
                    c = ip.w.registry.get(ckey)
                    if c is not None and not ip.w.registry.force_inline(ckey) and ip._self_sort_fits(c, recv.cls):
                        return ip.call_contract(c, recv, args, kwargs, n)
                    return ip.call_closure(Closure(child, {}, rel, cname), recv, args, kwargs, n)
        ip.oos(f'super().{name}: no definition further along the MRO', n)
    # value methods
    if isinstance(recv, Char):
        return char_method(ip, recv, name, args, n)
    if isinstance(recv, ArrStr):
        return arrstr_method(ip, recv, name, args, n)
    if isinstance(recv, str) or S.is_str(recv):
        return str_method(ip, ip.as_str(recv), name, args, n)
    if S.is_seq(recv) or isinstance(recv, ArrList):
        ip.oos(f'list method {name} on an r-value', n)
    if S.is_val(recv):
        if name in ('startswith', 'endswith', 'lower', 'upper', 'strip', 'lstrip', 'rstrip', 'capitalize', 'isalnum', 'isdigit', 'isalpha'):
            return str_method(ip, ip.as_str(recv, n), name, args, n)
        if name == 'get':
            ip.p.oblige('type', Val.is_vdict(recv), n, '.get on a dict value')
            k = ip.as_str(args[0], n)
            default = ip.to_val(args[1], n) if len(args) > 1 else Val.none
            return z3.If(z3.Select(Val.dkeys(recv), k), z3.Select(Val.dvals(recv), k), default)
    ip.oos(f'method {name} on {type(recv).__name__}', n)


def char_method(ip, c: Char, name, args, n):
    if name in CHAR_PREDS:
        return char_pred(ip, name, c.code)
    if name == 'lower':
        return LowerChar(c.code)
    if name == 'upper':
        return UpperChar(c.code)
    ip.oos(f'char method {name}', n)


class LowerChar(Char):
    """c.lower(): compared against literals through the validated pre-image table."""


class UpperChar(Char):
    pass


def arrstr_method(ip, s: ArrStr, name, args, n):
    if name == 'startswith':
        (pre,) = args
        if isinstance(pre, PyTuple):
            return ip.disj([arrstr_method(ip, s, name, [x], n) for x in pre.items])
        if not isinstance(pre, str):
            ip.oos('startswith with symbolic prefix on array string', n)
        cs = [s.length() >= len(pre)]
        for k, ch in enumerate(pre):
            cs.append(z3.Select(s.arr, s.lo + k) == ord(ch))
        return z3.And(*cs)
    if name == 'capitalize':
        return ArrStrFn('capitalize', s)
    if name in CHAR_PREDS:
        k = ip.p.fresh('k', z3.IntSort())
        return z3.And(s.length() > 0, z3.ForAll([k], z3.Implies(z3.And(k >= s.lo, k < s.hi), char_pred(ip, name, z3.Select(s.arr, k)))))
    ip.oos(f'array-string method {name}', n)


class ArrStrFn:
    def __init__(self, fn, s):
        self.fn = fn
        self.s = s


def str_method(ip, s, name, args, n):
    if name == 'startswith':
        (pre,) = args
        if isinstance(pre, PyTuple):
            return ip.disj([z3.PrefixOf(ip.as_str(x), s) for x in pre.items])
        return z3.PrefixOf(ip.as_str(pre, n), s)
    if name == 'endswith':
        (suf,) = args
        if isinstance(suf, PyTuple):
            return ip.disj([z3.SuffixOf(ip.as_str(x), s) for x in suf.items])
        return z3.SuffixOf(ip.as_str(suf, n), s)
    if name in ('lower', 'upper', 'capitalize', 'casefold'):
        return ip.w.uf(f'str_{name}', z3.StringSort(), z3.StringSort())(s)
    if name in ('strip', 'lstrip', 'rstrip'):
        if args:
            chars = args[0]
            if not isinstance(chars, str):
                ip.oos('strip with symbolic chars', n)
            return ip.w.uf(f'str_{name}_{chars.encode().hex()}', z3.StringSort(), z3.StringSort())(s)
        return ip.w.uf(f'str_{name}', z3.StringSort(), z3.StringSort())(s)
    if name in CHAR_PREDS:
        return str_pred(ip, name, s)
    if name == 'find':
        return z3.IndexOf(s, ip.as_str(args[0], n), ip.as_int(args[1], n) if len(args) > 1 else 0)
    if name == 'replace':
        ip.oos('str.replace (replace-all) is not modelled', n)
    if name == 'join':
        (parts,) = args
        if isinstance(parts, GenExp):
            # sep.join(<generator>): some string (nothing is claimed about it; sound for every use)
            return ip.p.fresh('joined', z3.StringSort())
        if z3.is_expr(parts) and S.is_seq(parts) and parts.sort() != S.SeqVal:
            return ip.w.uf(f'str_join_{parts.sort().basis()}', z3.StringSort(), parts.sort(), z3.StringSort())(s, parts)
        seq = ip.as_seq(parts, n)
        return ip.w.uf('str_join', z3.StringSort(), S.SeqVal, z3.StringSort())(s, seq)
    if name == 'format':
        ip.oos('str.format', n)
    ip.oos(f'str method {name}', n)


def dict_method(ip: Interp, d, name, args, kwargs, n):
    """methods of the python-side dict models (`dkeys/dvals` map, `okeys/ovals` ordered map)."""
    if not isinstance(d, (PRec, ZRec)):
        ip.oos('dict method on non-record', n)
    if isinstance(d, PRec) and 'okeys' in d.f:
        ks = d.f['okeys']
        ksort = ks.sort().basis()
        if name in ('super.__setitem__', '__setitem__'):
            return ip.odict_setitem(d, args[0], args[1], n)
        if name in ('super.__delitem__', '__delitem__'):
            return ip.odict_delitem(d, args[0], n)
        if name in ('get', 'super.get'):
            k = ip.coerce_sort(args[0], ksort, n)
            default = args[1] if len(args) > 1 else None
            vsort = d.f['ovals'].sort().range()
            return z3.If(z3.Contains(ks, z3.Unit(k)), z3.Select(d.f['ovals'], k), ip.coerce_sort(default, vsort, n))
        if name in ('super.__init__',):
            if args or kwargs:
                ip.oos('dict.__init__ with arguments', n)
            return None
        if name == 'super.__repr__':
            return ip.w.uf('dict_repr', z3.IntSort(), z3.StringSort())(z3.Length(ks))
        ip.oos(f'ordered-dict method {name}', n)
    if ip.dictview(d) is not None:
        gk, sk, gv, sv = ip.dictview(d)
        if name in ('get', 'super.get'):
            k = ip.as_str(args[0], n)
            default = args[1] if len(args) > 1 else None
            return z3.If(z3.Select(gk(), k), z3.Select(gv(), k), ip.coerce_sort(default, gv().sort().range(), n))
        if name in ('super.__setitem__', '__setitem__'):
            return ip.dict_setitem(d, args[0], args[1], n)
        if name in ('super.__getitem__',):
            return ip.dict_getitem(d, args[0], n)
        if name in ('super.__delitem__',):
            k = ip.as_str(args[0], n)
            ip.p.oblige('safety', z3.Select(gk(), k), n, 'key present (KeyError)', tag='safety')
            sk(z3.Store(gk(), k, False))
            return None
        if name in ('super.__init__',):
            if args or kwargs:
                ip.oos('dict.__init__ with arguments', n)
            return None
        if name == 'update' or name == 'super.update':
            (o,) = args
            if ip.dictview(o) is not None:
                ok, ov = ip.dictview(o)[0](), ip.dictview(o)[2]()
            elif S.is_val(o):
                ip.p.oblige('type', Val.is_vdict(o), n, 'update() from a dict value')
                ok, ov = Val.dkeys(o), Val.dvals(o)
            else:
                ip.oos('dict.update from this value', n)
            nk = ip.p.fresh('upd_keys', S.StrSet)
            nv = ip.p.fresh('upd_vals', S.StrMap)
            k = z3.String('k!upd')
            ip.p.assume(z3.ForAll([k], z3.Select(nk, k) == z3.Or(z3.Select(gk(), k), z3.Select(ok, k))))
            ip.p.assume(z3.ForAll([k], z3.Select(nv, k) == z3.If(z3.Select(ok, k), z3.Select(ov, k), z3.Select(gv(), k))))
            sk(nk)
            sv(nv)
            return None
        ip.oos(f'dict method {name}', n)
    ip.oos('dict method on non-dict record', n)


def list_method(ip: Interp, place, name, args, n):
    get, set_ = place
    cur = get()
    if S.is_val(cur):
        ip.p.oblige('type', Val.is_vlist(cur), n, f'.{name} on a list value')
        items = Val.items(cur)
        wrap = Val.vlist
    elif isinstance(cur, ArrList):
        if name == 'append':
            (x,) = args
            if isinstance(x, ZRec):
                x = x.get()
            el = ip.coerce_sort(x, cur.arr.sort().range(), n)
            set_(ArrList(z3.Store(cur.arr, cur.n, el), cur.n + 1, cur.elem))
            return None
        ip.oos(f'array-list method {name}', n)
    else:
        items = cur
        wrap = lambda t: t
    esort = items.sort().basis()
    if name == 'append':
        (x,) = args
        if isinstance(x, ZRec):
            x = x.get()
        set_(wrap(z3.Concat(items, z3.Unit(ip.coerce_sort(x, esort, n)))))
        return None
    if name == 'extend':
        (x,) = args
        if isinstance(x, ZRec):
            x = x.get()
        other = x if (S.is_seq(x) and x.sort() == items.sort()) else ip.as_seq(x, n)
        set_(wrap(z3.Concat(items, other)))
        return None
    if name == 'pop':
        if args:
            ip.oos('pop(index)', n)
        ln = z3.Length(items)
        st = ip.seq_from_end(items, 1)
        if st is not None:
            ip.p.oblige('safety', z3.BoolVal(True), n, 'pop from a non-empty list (IndexError)', tag='safety')
            last = st[1][0]
            set_(wrap(st[0]))
        else:
            ip.p.oblige('safety', ln > 0, n, 'pop from a non-empty list (IndexError)', tag='safety')
            last = items[ln - 1]
            set_(wrap(z3.Extract(items, 0, ln - 1)))
        rname = S.record_name(esort)
        if rname and S.RECORD_MUTABLE.get(rname):
            return ZRec.detached(rname, last)
        return last
    if name == 'clear':
        set_(wrap(z3.Empty(items.sort())))
        return None
    ip.oos(f'list method {name}', n)
