"""Axioms about CPython's per-character predicates, validated exhaustively on every run.

The predicates (`str.isdigit`, ...) are uninterpreted functions `chr_<name>: Int -> Bool` on code
points.  The only facts the prover may use are
  (1) the exact truth values for the 128 ASCII code points (ground facts, computed from the
      running interpreter), and
  (2) `forall c. vector(c) in REALIZABLE`, where REALIZABLE is the set of predicate vectors that
      occur among all 1 114 112 code points of the running interpreter.
Both are computed from `str` itself, so they are true of this interpreter by construction; the
table is also what counter-models are concretised with.
"""
from __future__ import annotations

import functools
import sys

import z3

PREDS = ('isdigit', 'isdecimal', 'isalpha', 'isalnum', 'isspace', 'isupper', 'islower', 'isnumeric')


@functools.lru_cache(maxsize=1)
def table():
    """vector -> first non-ASCII representative code points (and ascii ground truth)."""
    reps: dict[tuple, list[int]] = {}
    ascii_truth = {}
    for cp in range(sys.maxunicode + 1):
        ch = chr(cp)
        v = (ch.isdigit(), ch.isdecimal(), ch.isalpha(), ch.isalnum(), ch.isspace(), ch.isupper(), ch.islower(), ch.isnumeric())
        if cp < 128:
            ascii_truth[cp] = v
        lst = reps.setdefault(v, [])
        if len(lst) < 4 and cp >= 128 and not (0xD800 <= cp <= 0xDFFF):
            lst.append(cp)
    return reps, ascii_truth


def axioms(uf):
    """uf(name, *sorts) -> z3 function; returns the list of axioms."""
    reps, ascii_truth = table()
    fs = [uf(f'chr_{p}', z3.IntSort(), z3.BoolSort()) for p in PREDS]
    out = []
    for cp, v in ascii_truth.items():
        for f, b in zip(fs, v):
            out.append(f(cp) if b else z3.Not(f(cp)))
    c = z3.Int('c!cc')
    alts = []
    for v in reps:
        alts.append(z3.And(*[f(c) if b else z3.Not(f(c)) for f, b in zip(fs, v)]))
    out.append(z3.ForAll([c], z3.Or(*alts)))
    return out


@functools.lru_cache(maxsize=None)
def lower_preimage(lit: str) -> tuple[int, ...]:
    return tuple(cp for cp in range(sys.maxunicode + 1) if chr(cp).lower() == lit)


@functools.lru_cache(maxsize=None)
def upper_preimage(lit: str) -> tuple[int, ...]:
    return tuple(cp for cp in range(sys.maxunicode + 1) if chr(cp).upper() == lit)


def concretize_char(code: int, vector: tuple) -> str:
    """a real character for a model code point with the given predicate vector."""
    reps, ascii_truth = table()
    if 0 <= code < 128:
        return chr(code)
    if 0 <= code <= sys.maxunicode and not (0xD800 <= code <= 0xDFFF):
        ch = chr(code)
        v = (ch.isdigit(), ch.isdecimal(), ch.isalpha(), ch.isalnum(), ch.isspace(), ch.isupper(), ch.islower(), ch.isnumeric())
        if v == vector:
            return ch
    lst = reps.get(vector)
    if lst:
        return chr(lst[0])
    # only ASCII characters have this vector
    for cp, v in ascii_truth.items():
        if v == vector:
            return chr(cp)
    return chr(code) if 0 <= code <= sys.maxunicode else '?'
