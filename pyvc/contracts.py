"""Sidecar contracts: registry, application at call sites, verification of a function against
its own contract."""
from __future__ import annotations

import ast
import os
import sys
from dataclasses import dataclass, field
from typing import Any

import z3

from . import sorts as S
from .interp import (
    ArrList, ArrStr, BoundMeth, Char, Closure, ContractBindError, ExcV, FuncVal, Interp, Obligation,
    Opaque, OutOfSubset, Path, PathEnd, PRec, PyConst, PyTuple, Raised, Ret, World, ZRec,
)
from .sorts import Val


@dataclass
class Contract:
    key: str
    props: list[str]
    sig: dict[str, str]
    ret: str = 'Val'
    requires: list[str] = field(default_factory=list)
    ensures: list[Any] = field(default_factory=list)  # str or (tag, str)
    raises: dict[str, list[str]] = field(default_factory=dict)
    propagates: list[str] = field(default_factory=list)  # origins whose exceptions may pass through
    modifies: list[str] = field(default_factory=list)
    invariants: dict[int, list[str]] = field(default_factory=dict)
    decreases: dict[int, str] = field(default_factory=dict)
    inline: bool = False  # callers interpret the body instead of using the contract
    verify: bool = True  # False: assumed contract (external / trusted) -- listed in evidence
    soft_safety: list[str] = field(default_factory=list)  # exception classes that safety checks may raise
    note: str = ''
    generic: bool = False
    ghost: dict[str, str] = field(default_factory=dict)  # extra symbolic names visible to clauses
    # clauses assumed at call sites but NOT proved by pyvc: each names the bounded lemma that
    # checks it on the real function; obligations that used one are "discharged modulo bounded"
    assumed_ensures: list[tuple[str, str]] = field(default_factory=list)
    defaults: dict[str, Any] = field(default_factory=dict)  # default values of optional parameters
    locals_sig: dict[str, str] = field(default_factory=dict)  # locals holding lists that need the array encoding
    pure: bool = False  # the result is a function of the arguments (same arguments, same result)
    wf: bool = True  # record parameters are assumed (and required at call sites) to be well-formed
    at_yield: list[str] = field(default_factory=list)  # @contextmanager: clauses that must hold when the with-body starts
    guard: str = ''  # variants of one function told apart by a condition on the arguments: assumed for the variant's own proof, decided (forked) at call sites
    kwparam: str = ''  # name of the function's **kwargs parameter: keyword arguments outside `sig` are collected into it
    merge_ifs: bool = False  # if-chains that only assign local names are executed as one path (values merged with ite)
    varparam: str = ''  # name of the function's *args parameter: positional arguments beyond the named ones are collected into it (an array-backed list)
    theories: list[str] = field(default_factory=list)  # optional trusted theories instantiated on the paths of this function (e.g. 'display_width')

    def __post_init__(self):
        # raises clauses may be tagged tuples like ensures; keep plain strings
        self.raises = {k: [c[1] if isinstance(c, tuple) else c for c in v] for k, v in self.raises.items()}

    def clauses(self):
        out = []
        for e in self.ensures:
            if isinstance(e, tuple):
                out.append(e)
            else:
                out.append(('support', e))
        return out


class VariantSet:
    """contracts of one function for different argument shapes (e.g. optional parameter None / given)"""

    def __init__(self, variants):
        self.variants = variants


class ContractRegistry:
    def __init__(self):
        self.contracts: dict[str, Contract] = {}
        self.generic: dict[str, Contract] = {}
        self.classes: dict[str, dict] = {}  # record class name -> {'mro': [...], 'fields': {...}, 'wf': [...]}
        self.specs: dict[str, Any] = {}  # name -> ast.FunctionDef (spec function) or dict namespace
        self.spec_consts: dict[str, Any] = {}  # UPPER_CASE literal constants of the spec files
        self.spec_modules: dict[str, str] = {}
        self.opaque_attrs: dict[tuple[str, str], tuple[str, str]] = {}
        self.exc_attrs: dict[str, str] = {}
        self.imports: dict[str, str] = {}
        self.extern_funcs: dict[str, str] = {}  # imported name -> name of its model in pyvc/builtins_model.py (trusted, listed)
        self._force_inline: set[str] = set()

    def add(self, c: Contract):
        if c.generic:
            self.generic[c.key] = c
        else:
            self.contracts[c.key] = c
        return c

    def get(self, key):
        c = self.contracts.get(key)
        # variants  key#name : call sites pick the first whose parameter shapes fit
        vs = [v for k, v in self.contracts.items() if k.split('#', 1)[0] == key and '#' in k]
        if vs:
            return VariantSet(([c] if c is not None else []) + vs)
        if c is not None and c.inline:
            return None
        return c

    def by_name(self, name):
        hits = [c for k, c in self.contracts.items() if k.split(':')[1] == name and not c.inline]
        return hits[0] if len(hits) == 1 else None

    def force_inline(self, key):
        return key in self._force_inline

    def load_specs(self, path: str):
        """spec functions: plain python functions in a sidecar file, used symbolically (interpreted)
        and concretely (imported)."""
        src = open(path, encoding='utf-8').read()
        tree = ast.parse(src)
        for node in tree.body:
            if isinstance(node, ast.FunctionDef):
                self.specs[node.name] = node
                self.spec_modules[node.name] = path
            elif isinstance(node, ast.Assign) and len(node.targets) == 1 and isinstance(node.targets[0], ast.Name) \
                    and node.targets[0].id.isupper():
                try:
                    val = node.value
                    if isinstance(val, ast.Call) and isinstance(val.func, ast.Name) and val.func.id in ('frozenset', 'set') and val.args:
                        val = val.args[0]
                    self.spec_consts[node.targets[0].id] = ast.literal_eval(val)
                    self.spec_modules[node.targets[0].id] = path
                except (ValueError, SyntaxError):
                    pass

    def for_prop(self, prop: str):
        return [c for c in self.contracts.values() if prop in c.props]


# --------------------------------------------------------------------------- symbolic inputs


def mk_symbolic(ip: Interp, sortname: str, hint: str):
    p = ip.p
    w = ip.w
    sortname = sortname.strip()
    if sortname == 'None':
        return None
    if sortname == 'any':
        return Opaque('any', p.fresh(hint, z3.IntSort()))
    if sortname == 'arrstr':
        arr = p.fresh(hint + '_chars', z3.ArraySort(z3.IntSort(), z3.IntSort()))
        n = p.fresh(hint + '_len', z3.IntSort())
        p.assume(n >= 0)
        k = z3.Int('k!ax')
        p.assume(z3.ForAll([k], z3.And(z3.Select(arr, k) >= 0, z3.Select(arr, k) <= 0x10FFFF)))
        p.vars[hint] = ('arrstr', arr, n)
        return ArrStr(arr, z3.IntVal(0), n)
    if sortname == 'charset':
        t = p.fresh(hint, S.IntSet)
        p.vars[hint] = ('charset', t)
        return t
    if sortname.startswith('arrlist['):
        el = sortname[len('arrlist['):-1]
        es = S.sort_of(el)
        arr = p.fresh(hint + '_a', z3.ArraySort(z3.IntSort(), es))
        n = p.fresh(hint + '_n', z3.IntSort())
        p.assume(n >= 0)
        p.vars[hint] = ('arrlist', arr, n)
        if el.startswith('arrlist['):
            k = z3.Int('k!wf')
            ax = z3.ForAll([k], S.rec_get(z3.Select(arr, k), 'n') >= 0)  # every inner list has a length
            p.path_axioms.append(ax)
            p.pc.append(ax)
        return ArrList(arr, n, el)
    if sortname.startswith('opaque:'):
        t = p.fresh(hint, z3.IntSort())
        p.vars[hint] = ('opaque', t)
        return Opaque(sortname.split(':', 1)[1], t)
    if sortname.startswith(('seq[func:', 'seq[opaque:')):
        from .interp import OpaqueSeq
        t = p.fresh(hint, z3.SeqSort(z3.IntSort()))
        p.vars[hint] = ('term', t)
        return OpaqueSeq(sortname[len('seq['):-1].replace('opaque:', ''), t)
    if sortname.startswith('func:'):
        t = p.fresh(hint, z3.IntSort())
        p.vars[hint] = ('func', t)
        return FuncVal(sortname.split(':', 1)[1], t)
    if sortname.startswith('optfunc:'):
        # an optional callable: present or None (decided per path)
        has = p.fresh(hint + '_present', z3.BoolSort())
        if p.fork(has):
            return FuncVal(sortname.split(':', 1)[1], p.fresh(hint, z3.IntSort()))
        return None
    if sortname.startswith('tuple['):
        parts = _split_top(sortname[len('tuple['):-1])
        return PyTuple([mk_symbolic(ip, s, f'{hint}_{i}') for i, s in enumerate(parts)])
    if sortname == 'char':
        c = p.fresh(hint, z3.IntSort())
        p.assume(z3.And(c >= 0, c <= 0x10FFFF))
        p.vars[hint] = ('char', c)
        return Char(c)
    base, overrides = _split_overrides(sortname)
    if base in w.registry.classes and 'fields' in w.registry.classes[base]:
        info = w.registry.classes[base]
        rec = PRec(base, {})
        for fname, fsort in info['fields'].items():
            sub = {k[len(fname) + 1:]: v for k, v in overrides.items() if k.startswith(fname + '.')}
            fs = overrides.get(fname, fsort)
            if sub:
                fs = fs + '{' + ';'.join(f'{k}={v}' for k, v in sub.items()) + '}'
            rec.f[fname] = mk_symbolic(ip, fs, f'{hint}.{fname}')
        return rec
    if sortname.startswith('stack[') :
        # a non-empty sequence given as  below ++ [f_k] ++ ... ++ [f_1]  (k = declared minimum depth)
        inner, k = sortname[len('stack['):-1].split(',')
        es = S.sort_of(inner.strip())
        below = p.fresh(hint + '_below', z3.SeqSort(es))
        tops = [p.fresh(f'{hint}_top{i}', es) for i in range(int(k), 0, -1)]
        t = z3.Concat(below, *[z3.Unit(x) for x in tops])
        p.vars[hint] = ('term', t)
        return t
    srt = S.sort_of(sortname)
    if srt is None:
        raise ContractBindError(f'unknown sort {sortname!r}')
    t = p.fresh(hint, srt)
    p.vars[hint] = ('term', t)
    if sortname in S.RECORDS and S.RECORD_MUTABLE.get(sortname):
        z = ZRec.detached(sortname, t)
        p.vars[hint] = ('zrec', z, t)
        return z
    return t


def _split_overrides(sortname: str):
    if sortname.endswith('}') and '{' in sortname:
        base, rest = sortname.split('{', 1)
        ov = {}
        for item in _split_top(rest[:-1], sep=';'):
            k, v = item.split('=', 1)
            ov[k.strip()] = v.strip()
        return base.strip(), ov
    return sortname, {}


def _split_top(s: str, sep=','):
    parts, depth, cur = [], 0, ''
    for ch in s:
        if ch == '[':
            depth += 1
        elif ch == ']':
            depth -= 1
        if ch in '{':
            depth += 1
        elif ch in '}':
            depth -= 1
        if ch == sep and depth == 0:
            parts.append(cur.strip())
            cur = ''
        else:
            cur += ch
    if cur.strip():
        parts.append(cur.strip())
    return parts


def wf_assume(ip: Interp, v, sortname: str):
    """well-formedness facts implied by the python type."""
    reg = ip.w.registry
    sortname = _split_overrides(sortname)[0]
    if isinstance(v, PRec):
        info = reg.classes.get(v.cls, {})
        for clause in info.get('wf', []):
            ip.p.assume(spec_eval_env(ip, clause, {'self': v}))
        for fname, fsort in info.get('fields', {}).items():
            wf_assume(ip, v.f[fname], fsort)
    elif isinstance(v, ZRec):
        info = reg.classes.get(v.cls, {})
        for clause in info.get('wf', []):
            ip.p.assume(spec_eval_env(ip, clause, {'self': v}))


def spec_eval_env(ip: Interp, text: str, env: dict):
    sub = Interp(ip.p, None, dict(env), spec=True, fname='<contract>')
    sub.contract = ip.contract
    v = sub.ev(ast.parse(text.strip(), mode='eval').body)
    t = sub.truth(v)
    return t if z3.is_expr(t) else z3.BoolVal(bool(t))


def snapshot(v):
    if isinstance(v, PRec):
        return v.snapshot()
    if isinstance(v, ZRec):
        return v.get()
    if isinstance(v, PyTuple):
        return PyTuple([snapshot(x) for x in v.items])
    return v


def coerce_arg(ip: Interp, v, sortname: str, n):
    sortname = sortname.strip()
    if sortname.startswith('stack['):
        return v
    if sortname.startswith('func:'):
        gen = sortname.split(':', 1)[1]
        if isinstance(v, BoundMeth) and isinstance(v.recv, Opaque) and isinstance(v.target, PyConst) and v.target.name == gen:
            return FuncVal(gen, v.recv.ident)
        if isinstance(v, FuncVal) or v is None:
            return v
        ip.oos(f'cannot pass {type(v).__name__} where a {gen} function is expected', n)
    if sortname.startswith('arrlist['):
        return ip.to_arrlist(v, sortname[len('arrlist['):-1], n)
    if sortname in ('arrstr', 'charset', 'None', 'char', 'any') or sortname.startswith(('opaque:', 'optfunc:', 'tuple[')):
        return v
    sortname = _split_overrides(sortname)[0]
    if sortname in ip.w.registry.classes and 'fields' in ip.w.registry.classes[sortname]:
        fields = ip.w.registry.classes[sortname]['fields']
        if S.is_val(v) and set(fields) == {'dkeys', 'dvals'}:
            # a dict value passed where a string-keyed dict record is expected
            ip.p.oblige('type', Val.is_vdict(v), n, 'argument is a dict')
            return PRec(sortname, {'dkeys': z3.simplify(Val.dkeys(v)), 'dvals': z3.simplify(Val.dvals(v))})
        return v
    srt = S.sort_of(sortname)
    if srt is None:
        return v
    if isinstance(v, ZRec):
        return v
    return ip.coerce_sort(v, srt, n)


# --------------------------------------------------------------------------- applying a contract


def bind_params(ip: Interp, c: Contract, recv, args, kwargs, n) -> dict:
    names = list(c.sig)
    vals = list(args)
    if recv is not None and names and names[0] == 'self':
        vals = [recv, *vals]
    env = {}
    if c.varparam:
        # f(a, b, *rest): the positional arguments from the *args parameter's position on form one list
        at = names.index(c.varparam)
        elem = c.sig[c.varparam].strip()[len('arrlist['):-1]
        es = S.sort_of(elem)
        arr = ip.p.fresh('varargs_a', z3.ArraySort(z3.IntSort(), es))
        extra_vals = vals[at:]
        from .interp import StarV
        if len(extra_vals) == 1 and isinstance(extra_vals[0], StarV) and isinstance(extra_vals[0].value, ArrList) \
                and extra_vals[0].value.elem == elem:
            extra_vals, star = [], extra_vals[0].value  # f(*xs): the list itself
        else:
            star = None
        for j, x in enumerate(extra_vals):
            if elem.startswith('arrlist['):
                x = ip.to_arrlist(x, elem[len('arrlist['):-1], n)
            arr = z3.Store(arr, j, ip.coerce_sort(x, es, n))
        vals = vals[:at] + [star if star is not None else ArrList(arr, z3.IntVal(len(extra_vals)), elem)]
    if len(vals) > len(names):
        ip.oos(f'call of {c.key}: too many positional arguments', n)
    for i, name in enumerate(names):
        if i < len(vals):
            env[name] = coerce_arg(ip, vals[i], c.sig[name], n)
        elif name in kwargs:
            env[name] = coerce_arg(ip, kwargs[name], c.sig[name], n)
        elif name == c.kwparam:
            env[name] = coerce_arg(ip, Val.vdict(z3.K(z3.StringSort(), z3.BoolVal(False)), z3.K(z3.StringSort(), Val.none)), c.sig[name], n)
        else:
            d = c.defaults.get(name, _MISSING)
            if d is _MISSING:
                ip.oos(f'call of {c.key}: missing argument {name}', n)
            env[name] = d
    extra = set(kwargs) - set(names)
    if extra and c.kwparam and c.kwparam not in kwargs:
        # keyword arguments collected by **kwargs: one dict value (explicit keywords, then the ** mapping on top)
        if '**' in extra:
            # f(k1=v1, ..., **m): python raises TypeError for a key given twice, otherwise the union of both
            d = ip.to_val(kwargs['**'], n)
            ip.p.oblige('type', Val.is_vdict(d), n, '** argument is a mapping')
            for k in sorted(extra - {'**'}):
                ip.p.oblige('type', z3.Not(z3.Select(Val.dkeys(d), z3.StringVal(k))), n, f'keyword {k!r} is not repeated in the ** mapping (TypeError)')
        else:
            d = Val.vdict(z3.K(z3.StringSort(), z3.BoolVal(False)), z3.K(z3.StringSort(), Val.none))
        for k in sorted(extra - {'**'}):
            d = Val.vdict(z3.Store(Val.dkeys(d), z3.StringVal(k), True), z3.Store(Val.dvals(d), z3.StringVal(k), ip.to_val(kwargs[k], n)))
        env[c.kwparam] = coerce_arg(ip, d, c.sig[c.kwparam], n)
        extra = set()
    if extra:
        ip.oos(f'call of {c.key}: unexpected keyword {sorted(extra)}', n)
    return env


_MISSING = object()


def havoc_paths(ip: Interp, env: dict, paths: list[str], hint: str):
    sub = Interp(ip.p, None, env, spec=True, fname='<modifies>')
    for ptxt in paths:
        node = ast.parse(ptxt.strip(), mode='eval').body
        get, set_ = sub.place(node)
        cur = get()
        new = ip.havoc_value(cur, f'{hint}:{ptxt}')
        if new is not cur:
            set_(new)


def _raw_binding(c: Contract, recv, args, kwargs):
    """parameter -> argument as given (no coercion, no obligations); missing ones get their default or _MISSING"""
    names = list(c.sig)
    vals = list(args)
    if recv is not None and names and names[0] == 'self':
        vals = [recv, *vals]
    raw = {}
    for i, name in enumerate(names):
        if i < len(vals):
            raw[name] = vals[i]
        elif name in kwargs:
            raw[name] = kwargs[name]
        else:
            raw[name] = c.defaults.get(name, _MISSING)
    return raw


def pick_variant(ip: Interp, vs: VariantSet, recv, args, kwargs, n) -> Contract:
    for c in vs.variants:
        # decide on the arguments as given: coercing them first would emit type obligations for variants that do not apply
        raw = _raw_binding(c, recv, args, kwargs)
        if any((sortname.strip() == 'None') != (raw.get(name) is None)
               for name, sortname in c.sig.items()
               if raw.get(name) is not _MISSING and (sortname.strip() == 'None' or raw.get(name) is None)
               and not sortname.strip().startswith(('Val', 'any'))):
            continue
        try:
            env = bind_params(ip, c, recv, args, kwargs, n)
        except OutOfSubset:
            continue
        ok = True
        for name, sortname in c.sig.items():
            v = env.get(name)
            base = _split_overrides(sortname.strip())[0]
            # a variant stated for one representation of an object is not used for another one
            if isinstance(v, (PRec, ZRec)) and (base in ip.w.registry.classes or base in S.RECORDS) and v.cls != base:
                ok = False
            if S.is_record(v) and (base in ip.w.registry.classes or base in S.RECORDS) and S.record_name(v.sort()) != base:
                ok = False
            if sortname.strip() == 'None' and v is not None:
                ok = False
            if sortname.strip() != 'None' and v is None and not sortname.strip().startswith(('Val', 'any')):
                ok = False
        if ok and c.guard:
            cond = spec_eval_env(ip, c.guard, env)
            cond = ip.truth(cond, n) if not isinstance(cond, bool) else cond
            if not (cond if isinstance(cond, bool) else ip.p.fork(cond)):
                continue
        if ok:
            return c
    ip.oos(f'no contract variant fits this call of {vs.variants[0].key}', n)


def apply_contract(ip: Interp, c, recv, args, kwargs, n):
    if isinstance(c, VariantSet):
        c = pick_variant(ip, c, recv, args, kwargs, n)
    p = ip.p
    env = bind_params(ip, c, recv, args, kwargs, n)
    short = c.key.split(':')[-1]
    # well-formedness of record arguments is part of every precondition
    for name, sortname in c.sig.items():
        v = env.get(name)
        if isinstance(v, (PRec, ZRec)) and c.wf:
            for clause in ip.w.registry.classes.get(v.cls, {}).get('wf', []):
                p.oblige('pre', spec_eval_env(ip, clause, {'self': v}), n, f'well-formed {name} for {short}: {clause}')
    for clause in c.requires:
        p.oblige('pre', spec_eval_env(ip, clause, env), n, f'precondition of {short}: {clause}')
    olds = {f'old_{k}': snapshot(v) for k, v in env.items()}
    env.update(olds)
    for g, gs in c.ghost.items():
        env[g] = mk_symbolic(ip, gs, f'{short}.{g}')
    # which exit?
    for cls, clauses in c.raises.items():
        b = p.fresh(f'exit_{short}_{cls}', z3.BoolSort())
        if p.fork(b):
            havoc_paths(ip, env, c.modifies, short)
            cid = p.fresh('ecls', z3.IntSort())
            p.assume(ip.w.exc.in_range(cid))
            p.assume(ip.w.exc.is_sub(cid, cls))
            exc = ExcV(cid, p.fresh('eid', z3.IntSort()), origin=f'callee:{short}')
            env['exc'] = exc
            for clause in clauses:
                if _assign_form(ip, clause, env, c.modifies):
                    continue
                p.assume(spec_eval_env(ip, clause, env))
            if not p.feasible(z3.BoolVal(True)):
                raise PathEnd()
            raise Raised(exc)
    if c.propagates:
        # an arbitrary other exception (e.g. from user semantics) passes through unchanged;
        # `propagates` lists what is known about the state then
        b = p.fresh(f'exit_{short}_other', z3.BoolSort())
        if p.fork(b):
            havoc_paths(ip, env, c.modifies, short)
            cid = p.fresh('ecls', z3.IntSort())
            p.assume(ip.w.exc.in_range(cid))
            # "other" = anything that is not a parse failure: user exceptions, FailedSemantics, ...
            p.assume(z3.Not(ip.w.exc.is_sub(cid, 'FailedParse')))
            p.assume(z3.Not(ip.w.exc.is_sub(cid, 'OptionSucceeded')))
            for cls in c.raises:
                p.assume(z3.Not(ip.w.exc.is_sub(cid, cls)))
            exc = ExcV(cid, p.fresh('eid', z3.IntSort()), origin=f'callee:{short}:other')
            inside = p.fresh('raised_inside', z3.BoolSort())
            # only a TypeError can be an argument-binding failure of the call itself
            p.assume(z3.Or(inside, ip.w.exc.is_sub(cid, 'TypeError')))
            exc.info['inside'] = inside
            env['exc'] = exc
            for clause in c.propagates:
                if clause != 'other':
                    if _assign_form(ip, clause, env, c.modifies):
                        continue
                    p.assume(spec_eval_env(ip, clause, env))
            raise Raised(exc)
    havoc_paths(ip, env, c.modifies, short)
    result = _pure_result(ip, c, env, short) if c.pure else mk_symbolic(ip, c.ret, f'{short}.result')
    env['retval' if 'result' in c.sig else 'result'] = result
    for _tag, clause in c.clauses():
        if _tag == 'local':
            # proved for the function itself, not handed to its callers (quantified facts no caller needs:
            # they would only cost the solver its ability to find counter-models at the call sites)
            continue
        if _assign_form(ip, clause, env, c.modifies):
            continue
        p.assume(spec_eval_env(ip, clause, env))
    for lemma, clause in c.assumed_ensures:
        p.assume(spec_eval_env(ip, clause, env))
        p.used_lemmas.add(lemma)
    # the normal exit of a callee with exceptional exits may be impossible for these arguments: prune such paths early.
    # (A callee with one exit only cannot contradict the path once its precondition is established; skipping the check there
    # saves a solver call per call site -- paths that are infeasible for other reasons only yield trivially valid obligations.)
    if (c.raises or c.propagates) and not p.feasible(z3.BoolVal(True)):
        raise PathEnd()
    return result


def _pure_result(ip: Interp, c: Contract, env: dict, short: str):
    """result of a pure callee: an uninterpreted function of its (term-valued) arguments"""
    zargs = []
    for name in c.sig:
        v = env[name]
        if isinstance(v, (Opaque, FuncVal)):
            v = v.ident
        if isinstance(v, ZRec):
            v = v.get()
        v = ip.z(v)
        if not z3.is_expr(v):
            return mk_symbolic(ip, c.ret, f'{short}.result')
        zargs.append(v)
    ret = c.ret.strip()
    if ret.startswith(('opaque:', 'func:')):
        f = ip.w.uf(f'pure_{short}', *[a.sort() for a in zargs], z3.IntSort())
        t = f(*zargs)
        return Opaque(ret.split(':', 1)[1], t) if ret.startswith('opaque:') else FuncVal(ret.split(':', 1)[1], t)
    srt = S.sort_of(ret)
    if srt is None:
        return mk_symbolic(ip, c.ret, f'{short}.result')
    return ip.w.uf(f'pure_{short}', *[a.sort() for a in zargs], srt)(*zargs)


def _assign_form(ip: Interp, clause: str, env: dict, modifies: list[str]) -> bool:
    """a postcondition `<modified path> == <expr>` is applied as an assignment (keeps terms structural)."""
    node = ast.parse(clause.strip(), mode='eval').body
    if isinstance(node, ast.Call) and isinstance(node.func, ast.Name) and node.func.id == 'grown' \
            and ast.unparse(node.args[0]) in [m.strip() for m in modifies]:
        # frames below the old top are untouched, the old top may have changed, frames may be left above it
        sub = Interp(ip.p, None, env, spec=True, fname='<assign-post>')
        get, set_ = sub.place(node.args[0])
        old = sub.ev(node.args[1])
        st = sub.seq_from_end(old, 1)
        if st is not None:
            es = old.sort().basis()
            if ip.p.fork(ip.p.fresh('one_frame_left', z3.BoolSort())):
                parts = [z3.Unit(ip.p.fresh('frame_left', es))]
            else:
                parts = [ip.p.fresh('frames_left', old.sort()), z3.Unit(ip.p.fresh('frame_left_a', es)),
                         z3.Unit(ip.p.fresh('frame_left_b', es))]
            set_(sub.seq_join(sub.seq_parts(st[0]) + parts, old.sort()))
            return True
        return False
    if isinstance(node, ast.Call) and isinstance(node.func, ast.Name) and node.func.id == 'top_only' \
            and ast.unparse(node.args[0]) in [m.strip() for m in modifies]:
        # "only the top frame may differ": the new stack is  old[:-1] ++ [some frame]
        sub = Interp(ip.p, None, env, spec=True, fname='<assign-post>')
        get, set_ = sub.place(node.args[0])
        old = sub.ev(node.args[1])
        st = sub.seq_from_end(old, 1)
        if st is not None:
            top = ip.p.fresh('top_after', old.sort().basis())
            set_(sub.seq_join(sub.seq_parts(st[0]) + [z3.Unit(top)], old.sort()))
            return True
        return False
    if not (isinstance(node, ast.Compare) and len(node.ops) == 1 and isinstance(node.ops[0], ast.Eq)):
        return False
    left = ast.unparse(node.left)
    if left not in [m.strip() for m in modifies]:
        return False
    sub = Interp(ip.p, None, env, spec=True, fname='<assign-post>')
    get, set_ = sub.place(node.left)
    cur = get()
    val = sub.ev(node.comparators[0])
    if isinstance(val, ZRec):
        val = val.get()
    if isinstance(cur, ZRec):
        cur.set(sub.coerce_sort(val, cur.get().sort(), node))
        return True
    if (cur is None or isinstance(cur, FuncVal) or S.is_val(cur)) and isinstance(val, FuncVal):
        set_(val)  # an optional callable field that the callee sets
        return True
    if z3.is_expr(cur) and z3.is_expr(sub.z(val)):
        set_(sub.coerce_sort(val, cur.sort(), node))
        return True
    return False


# --------------------------------------------------------------------------- verifying a function


@dataclass
class FunctionReport:
    key: str
    sha: str | None
    status: str  # 'ok' | 'missing' | 'out-of-subset' | 'bind-error'
    detail: str = ''
    obligations: list[Obligation] = field(default_factory=list)
    paths: int = 0
    feasible_returns: int = 0


def verify_function(world: World, c: Contract, max_paths: int = 4000) -> FunctionReport:
    fn, cls, sha = world.repo.find(c.key)
    if fn is None:
        return FunctionReport(c.key, None, 'missing', 'function not found in the working tree')
    rel = c.key.split(':')[0]
    # locals the contract names (in loop invariants, measures, array-backed locals) that the current source has renamed
    from . import renames as RN
    needed = RN.names_in([cl for inv in c.invariants.values() for cl in inv] + list(c.decreases.values())) | set(c.locals_sig)
    renames = RN.recover(c.key, fn, needed) if needed else {}
    worklist: list[list[bool]] = [[]]
    seen: dict[tuple, Obligation] = {}
    rep = FunctionReport(c.key, sha, 'ok')
    short = c.key.split(':')[-1]
    while worklist:
        decisions = worklist.pop()
        rep.paths += 1
        if rep.paths > max_paths:
            rep.status = 'out-of-subset'
            rep.detail = f'more than {max_paths} paths'
            break
        path = Path(world, decisions)
        path.theories = set(c.theories)
        path.renames = renames
        ip = Interp(path, rel, {}, cls=cls, fname=short)
        ip.contract = c
        ip.soft_safety = set(c.soft_safety)
        try:
            try:
                _run_path(ip, c, fn, cls)
            except PathEnd:
                pass
        except OutOfSubset as e:
            rep.status = 'out-of-subset'
            rep.detail = str(e)
            break
        except ContractBindError as e:
            rep.status = 'bind-error'
            rep.detail = str(e)
            break
        rep.feasible_returns += getattr(path, 'returns', 0)
        worklist.extend(path.pending)
        for ob in path.obls:
            k = ob.key()
            if k not in seen:
                seen[k] = ob
    obls = list(seen.values())
    # stable ids
    counts: dict[str, int] = {}
    for ob in obls:
        base = f'{c.key}/{ob.kind}@L{ob.lineno}'
        counts[base] = counts.get(base, 0) + 1
        ob.oid = f'{base}#{counts[base]}'
    rep.obligations = obls
    return rep


def _run_path(ip: Interp, c: Contract, fn: ast.FunctionDef, cls):
    p = ip.p
    a = fn.args
    params = [x.arg for x in a.posonlyargs + a.args + a.kwonlyargs]
    if a.vararg is not None:
        params.append(a.vararg.arg)  # *tracks: one symbolic list
    if a.kwarg is not None:
        params.append(a.kwarg.arg)  # **settings: one symbolic mapping
    decs = [ast.unparse(d) for d in fn.decorator_list]
    for name in c.sig:
        if name not in params and not name.startswith('ghost_'):
            raise ContractBindError(f'{c.key}: contract parameter {name!r} is not a parameter of the function ({params})')
    env = ip.env
    for name in params:
        if name not in c.sig:
            # unconstrained parameter the contract says nothing about: use its default if constant
            raise ContractBindError(f'{c.key}: function parameter {name!r} has no sort in the contract')
    for name, sortname in c.sig.items():
        env[name] = mk_symbolic(ip, sortname, name)
    for g, gs in c.ghost.items():
        env[g] = mk_symbolic(ip, gs, g)
    p.input_names = set(p.vars)  # symbols created for parameters and ghosts: the inputs a counter-model has to give
    for name, sortname in c.sig.items():
        if c.wf:
            wf_assume(ip, env[name], sortname)
    for clause in c.requires + ([c.guard] if c.guard else []):
        p.assume(spec_eval_env(ip, clause, env))
    if any(ast.unparse(d) in ('contextmanager', 'contextlib.contextmanager') for d in fn.decorator_list):
        if 'body' not in c.ghost:
            raise ContractBindError(f'{c.key}: a @contextmanager needs a ghost `body` parse function')
        gen = ip.w.registry.generic[c.ghost['body'].split(':', 1)[1]]
        ip.yielded = 0

        def _cb(_value, ip=ip, gen=gen):
            if c.at_yield:
                yenv = dict(ip.env)
                for pname, was_mutable in getattr(ip, '_param_mutable', {}).items():
                    if not was_mutable:
                        yenv[pname] = ip.env[f'old_{pname}']
                    else:
                        yenv[pname] = ip._entry_objs[pname]
                sub = Interp(ip.p, None, yenv, spec=True, fname=f'{ip.fname}<yield>')
                sub.contract = c
                for clause in c.at_yield:
                    t = sub.truth(sub.ev(ast.parse(clause.strip(), mode='eval').body))
                    ip.p.oblige('yield', t if z3.is_expr(t) else z3.BoolVal(bool(t)), fn, f'when the with-body starts: {clause}', tag='property')
            # a generic body contract with a third parameter also receives the value the manager yields (`with m() as x`)
            extra = [_value] if len(gen.sig) >= 3 else []
            apply_contract(ip, gen, None, [ip.env['body'], ip.env['self'], *extra], {}, fn)

        ip.yield_cb = _cb
    ip._param_mutable = {}
    ip._entry_objs = {name: env[name] for name in c.sig}  # the objects passed in (a parameter may be rebound in the body)
    for name in c.sig:
        env[f'old_{name}'] = snapshot(env[name])
        ip._param_mutable[name] = isinstance(env[name], (PRec, ZRec))
    try:
        ip.block(fn.body)
        result = None
    except Ret as r:
        result = r.value
    except Raised as r:
        _exceptional_exit(ip, c, r.exc, fn)
        return
    p.returns = getattr(p, 'returns', 0) + 1
    # normal exit
    penv = {k: v for k, v in env.items()}
    # parameters of immutable sorts denote their values on entry (locals may have been reassigned)
    for name, was_mutable in getattr(ip, '_param_mutable', {}).items():
        if not was_mutable:
            penv[name] = env[f'old_{name}']
        else:
            penv[name] = ip._entry_objs[name]  # the object passed in, in its final state (the local may be rebound)
    if c.ret.strip() == 'None':
        # the contract says the function returns nothing: check it (a returned value would otherwise be dropped silently)
        isnone = True if result is None else (result == Val.none if S.is_val(result) else False)
        p.oblige('post', isnone if z3.is_expr(isnone) else z3.BoolVal(bool(isnone)), fn, 'returns None', tag='support')
    penv['retval' if 'result' in c.sig else 'result'] = _coerce_result(ip, result, c.ret, fn)
    _frame_check(ip, c, fn)
    sub = Interp(p, None, penv, spec=True, fname=f'{ip.fname}<post>')
    sub.contract = c
    for tag, clause in c.clauses():
        v = sub.ev(ast.parse(clause.strip(), mode='eval').body)
        t = sub.truth(v)
        p.oblige('post', t if z3.is_expr(t) else z3.BoolVal(bool(t)), fn, f'postcondition: {clause}', tag='property' if tag == 'local' else tag)


def _frame_check(ip: Interp, c: Contract, fn):
    """fields of object parameters outside `modifies` must be unchanged at the exit"""
    for name in c.sig:
        cur = getattr(ip, '_entry_objs', {}).get(name, ip.env.get(name))
        old = ip.env.get(f'old_{name}')
        if isinstance(cur, PRec) and isinstance(old, PRec):
            _frame_rec(ip, c, fn, name, cur, old)


def _frame_rec(ip, c, fn, path, cur, old):
    mods = [m.strip() for m in c.modifies]
    for k, v in cur.f.items():
        sub = f'{path}.{k}'
        if any(m == sub or m == path or sub.startswith(m + '.') for m in mods):
            continue
        o = old.f.get(k)
        if isinstance(v, PRec) and isinstance(o, PRec):
            if any(m.startswith(sub + '.') for m in mods):
                _frame_rec(ip, c, fn, sub, v, o)
            else:
                _frame_rec(ip, c, fn, sub, v, o)
            continue
        if v is o:
            continue
        if z3.is_expr(v) and z3.is_expr(o):
            if v.eq(o):
                continue
            ip.p.oblige('frame', v == o, fn, f'{sub} is not in `modifies` and must be unchanged', tag='property')
        elif type(v) is type(o) and v == o:
            continue
        else:
            ip.p.oblige('frame', z3.BoolVal(False), fn, f'{sub} is not in `modifies` but was replaced', tag='property')


def _coerce_result(ip: Interp, result, ret: str, fn):
    ret = ret.strip()
    if ret == 'None':
        return None
    if ret == 'any':
        return result
    if ret.startswith('tuple['):
        return result
    if ret.startswith('arrlist['):
        return ip.to_arrlist(result, ret[len('arrlist['):-1], fn)
    if isinstance(result, ZRec) and ret == 'Val':
        return ip.to_val(result, fn)
    if isinstance(result, (PRec, ZRec, ArrList, ArrStr, PyTuple, Opaque)):
        return result
    srt = S.sort_of(ret)
    if srt is None:
        return result
    return ip.coerce_sort(result, srt, fn)


def _exceptional_exit(ip: Interp, c: Contract, exc: ExcV, fn):
    p = ip.p
    env = dict(ip.env)
    for name, was_mutable in getattr(ip, '_param_mutable', {}).items():
        if not was_mutable:
            env[name] = env[f'old_{name}']
        else:
            env[name] = ip._entry_objs[name]
    env['exc'] = exc
    if os.environ.get('PYVC_DEBUG'):
        print('exceptional exit', exc.cls, exc.origin, exc.info, file=sys.stderr)
    if exc.origin and exc.origin.endswith(':other') and c.propagates:
        # an exception of user code passing through unchanged: allowed, with the stated state
        p.oblige('propagate', z3.BoolVal(True), fn, 'foreign exception propagates unchanged', tag='property')
        sub = Interp(p, None, env, spec=True, fname=f'{ip.fname}<propagates>')
        for clause in c.propagates:
            if clause != 'other':
                t = sub.truth(sub.ev(ast.parse(clause.strip(), mode='eval').body))
                p.oblige('propagate', t if z3.is_expr(t) else z3.BoolVal(bool(t)), fn, f'while a foreign exception propagates: {clause}')
        return
    for cls, clauses in c.raises.items():
        cond = ip.w.exc.is_sub(exc.cls, cls)
        hit = cond if isinstance(cond, bool) else p.fork(cond)
        if hit:
            sub = Interp(p, None, env, spec=True, fname=f'{ip.fname}<raises>')
            sub.contract = c
            if not clauses:
                p.oblige('raises', z3.BoolVal(True), fn, f'{cls} may be raised')
            for clause in clauses:
                v = sub.ev(ast.parse(clause.strip(), mode='eval').body)
                t = sub.truth(v)
                p.oblige('raises', t if z3.is_expr(t) else z3.BoolVal(bool(t)), fn, f'on {cls}: {clause}', tag='property')
            return
    names = [n for n in ip.w.exc.names]
    which = names[exc.cls.as_long()] if z3.is_int_value(exc.cls) else 'a symbolic class'
    p.oblige('no-escape', z3.BoolVal(False), fn,
             f'an exception class outside the contract escapes ({which}, origin {exc.origin})', tag='property')
