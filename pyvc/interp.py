"""pyvc interpreter: path-replay symbolic execution of real function ASTs.

One *path* is one deterministic run of the interpreter with a decision list; `fork(cond)`
consumes a decision (or, past the end of the list, checks feasibility of both sides with z3,
picks one and schedules the other).  Loops are cut by their contract invariants, calls to
functions under contract are replaced by their contracts, everything else is interpreted from
the AST read from /repo on this run.  Obligations are collected as (path condition, goal).
"""
from __future__ import annotations

import ast
import hashlib
import os
from dataclasses import dataclass, field
from typing import Any

import z3

from . import sorts as S
from .classes import REPO, ExcTable, ModelClassTable
from .sorts import Val

# --------------------------------------------------------------------------- control flow


class OutOfSubset(Exception):
    def __init__(self, why, node=None):
        self.why = why
        self.lineno = getattr(node, 'lineno', None)
        super().__init__(f'{why} (line {self.lineno})')


class ContractBindError(Exception):
    pass


class PathEnd(Exception):
    pass


class Ret(Exception):
    def __init__(self, value):
        self.value = value


class Brk(Exception):
    pass


class Cont(Exception):
    pass


class Raised(Exception):
    def __init__(self, exc):
        self.exc = exc


# --------------------------------------------------------------------------- python-side values


@dataclass
class ExcV:
    cls: Any  # z3 Int term (class id)
    eid: Any  # z3 Int term
    origin: str | None = None  # 'callee:<name>' for exceptions coming out of a callee contract
    info: dict = field(default_factory=dict)


class PRec:
    """python-side mutable record (by reference)."""

    def __init__(self, cls: str, fields: dict):
        self.cls = cls
        self.f = fields

    def snapshot(self):
        return PRec(self.cls, {k: (v.snapshot() if isinstance(v, PRec) else v) for k, v in self.f.items()})

    def __repr__(self):
        return f'PRec<{self.cls}>'


class ZRec:
    """mutable view of a z3 record term (frame, cursor): get()/set() write through to its place."""

    def __init__(self, cls: str, get, set_):
        self.cls = cls
        self._get = get
        self._set = set_
        self.cache = None
        try:
            self.cache = get()
        except Exception:  # noqa: BLE001
            pass

    def get(self):
        """current value; when the slot this view pointed to is gone (its frame was popped) the
        object lives on with its last value (ownership assumption OWN: no other alias mutated it)"""
        try:
            self.cache = self._get()
        except (IndexError, AttributeError):
            if self.cache is None:
                raise
        return self.cache

    def set(self, t):
        self.cache = t
        try:
            self._set(t)
        except (IndexError, AttributeError):
            pass

    @staticmethod
    def detached(cls, term):
        cell = [term]

        def _set(t):
            cell[0] = t

        return ZRec(cls, lambda: cell[0], _set)

    def __repr__(self):
        return f'ZRec<{self.cls}>'


@dataclass
class PyTuple:
    items: list


@dataclass
class SetLit:
    items: list


@dataclass
class Char:
    """one character of an array-backed string (code point as Int term)."""
    code: Any


@dataclass
class ArrStr:
    """string as (Array Int Int) of code points and a length; view [lo, hi) of the base array."""
    arr: Any
    lo: Any
    hi: Any

    def length(self):
        return self.hi - self.lo


@dataclass
class ArrList:
    """list as (Array Int T, length) -- used where loop invariants quantify over elements."""
    arr: Any
    n: Any
    elem: str = 'Val'


@dataclass
class Closure:
    fn: ast.FunctionDef | ast.Lambda
    env: dict
    module: str
    cls: str | None = None


@dataclass
class BoundMeth:
    recv: Any
    name: str
    target: Any  # Closure | Contract


@dataclass
class Opaque:
    """object known only through uninterpreted attribute functions (grammar-model nodes etc.)."""
    kind: str
    ident: Any  # z3 Int


@dataclass
class OptOpaque(Opaque):
    """an opaque attribute that may be None: truthiness is the uninterpreted `present`"""
    present: Any = None


@dataclass
class PyConst:
    """a python-level constant namespace/class/function name the interpreter knows how to call."""
    kind: str  # 'class' | 'excclass' | 'module' | 'builtin' | 'modelclass' | 'spec'
    name: str
    obj: Any = None


@dataclass
class FuncVal:
    """a callable value with the generic contract named `contract` (e.g. PARSE for `exp: Func`)."""
    contract: str
    ident: Any  # z3 term identifying the function (Opaque ident)


# --------------------------------------------------------------------------- obligations


@dataclass
class Obligation:
    oid: str
    kind: str
    pc: list
    goal: Any
    lineno: int | None
    note: str
    tag: str = 'support'
    axioms: list = field(default_factory=list)
    vars: dict = field(default_factory=dict)  # name -> term, for counter-model extraction
    lemmas: tuple = ()  # bounded lemmas assumed on this path before the obligation
    inputs: frozenset = frozenset()  # names in `vars` that are inputs of the function (parameters, ghosts)

    def key(self):
        h = hashlib.sha1()
        for c in self.pc:
            h.update(c.sexpr().encode())
        h.update(self.goal.sexpr().encode())
        return (self.kind, self.lineno, self.note, h.hexdigest())


# --------------------------------------------------------------------------- module loading


class Repo:
    """Reads and caches (per run) the ASTs of repo files; finds functions by qualified name."""

    def __init__(self, root: str = REPO):
        self.root = root
        self.trees: dict[str, ast.Module] = {}
        self.src: dict[str, str] = {}

    def tree(self, rel: str) -> ast.Module:
        if rel not in self.trees:
            path = rel if os.path.isabs(rel) else os.path.join(self.root, rel)
            src = open(path, encoding='utf-8').read()
            self.src[rel] = src
            self.trees[rel] = ast.parse(src)
        return self.trees[rel]

    def find(self, key: str):
        """key = 'path/file.py:Class.method' or 'path/file.py:func' or '...:outer.<locals>.inner'."""
        rel, qual = key.split(':', 1)
        qual = qual.split('#', 1)[0]
        node: Any = self.tree(rel)
        cls = None
        for part in qual.split('.'):
            if part == '<locals>':
                continue
            found = None
            for child in ast.walk(node) if isinstance(node, (ast.FunctionDef,)) else node.body:
                if isinstance(child, (ast.FunctionDef, ast.ClassDef)) and child.name == part and child is not node:
                    found = child
                    break
            if found is None:
                return None, None, None
            if isinstance(found, ast.ClassDef):
                cls = found.name
            node = found
        if not isinstance(node, ast.FunctionDef):
            return None, None, None
        seg = ast.get_source_segment(self.src[rel], node) or ''
        return node, cls, hashlib.sha256(seg.encode()).hexdigest()

    def find_class(self, rel: str, name: str) -> ast.ClassDef | None:
        for child in self.tree(rel).body:
            if isinstance(child, ast.ClassDef) and child.name == name:
                return child
        return None

    def module_constant(self, rel: str, name: str):
        for child in self.tree(rel).body:
            if isinstance(child, ast.AnnAssign) and isinstance(child.target, ast.Name) and child.target.id == name \
                    and child.value is not None:
                try:
                    return True, ast.literal_eval(child.value)
                except Exception:
                    return False, child.value
            if isinstance(child, ast.Assign) and len(child.targets) == 1:
                t = child.targets[0]
                if isinstance(t, ast.Name) and t.id == name:
                    try:
                        return True, ast.literal_eval(child.value)
                    except Exception:
                        return False, child.value
        return False, None


# --------------------------------------------------------------------------- the world


class World:
    """Everything shared by the paths of one verification run."""

    def __init__(self, registry):
        self.repo = Repo()
        self.registry = registry  # ContractRegistry
        self.exc = ExcTable()
        self.models = ModelClassTable()
        self.axioms: list = []
        self.ufs: dict[str, Any] = {}
        self.assumptions: set[str] = set()
        from . import charclasses
        self.axioms.extend(charclasses.axioms(self.uf))

    def uf(self, name, *sorts):
        if name not in self.ufs:
            self.ufs[name] = z3.Function(name, *sorts)
        return self.ufs[name]


class Path:
    def __init__(self, world: World, decisions: list[bool]):
        self.w = world
        self.decisions = list(decisions)
        self.idx = 0
        self.pc: list = []
        self.obls: list[Obligation] = []
        self.pending: list[list[bool]] = []
        self.counter = 0
        # feasibility solver: quantifier-free facts only (dropping facts only keeps more paths)
        self.solver = z3.Solver()
        self.solver.set('timeout', int(os.environ.get('PYVC_FEAS_MS', '300')))
        # world axioms are added when a fact first mentions one of their symbols (relevance closure)
        from .solve import symbols_of
        self._symbols_of = symbols_of
        self._pending_axioms = [(a, symbols_of(a)) for a in world.axioms if not _has_quantifier(a)]
        self._feas_syms: set = set()
        self.vars: dict[str, Any] = {}
        self.path_axioms: list = []
        self.used_lemmas: set[str] = set()
        self.theories: set[str] = set()

    def _feas_add(self, c):
        if not _has_quantifier(c):
            self.solver.add(c)
            self._feas_touch(c)

    def _feas_touch(self, c):
        """pull in the world axioms that share a symbol with the facts seen so far"""
        if not self._pending_axioms:
            return
        new = self._symbols_of(c) - self._feas_syms
        if not new:
            return
        self._feas_syms |= new
        changed = True
        while changed and self._pending_axioms:
            changed = False
            keep = []
            for a, sy in self._pending_axioms:
                if not sy or sy & self._feas_syms:
                    self.solver.add(a)
                    if sy - self._feas_syms:
                        self._feas_syms |= sy
                        changed = True
                else:
                    keep.append((a, sy))
            self._pending_axioms = keep

    def fresh(self, hint: str, sort):
        self.counter += 1
        name = f'{hint}!{self.counter}'
        c = z3.Const(name, sort)
        if getattr(self, 'fresh_log', None) is not None:
            self.fresh_log.append(c)
        return c

    def assume(self, cond):
        cond = cond if z3.is_expr(cond) else z3.BoolVal(bool(cond))
        simp = z3.simplify(cond)
        if z3.is_false(simp):
            raise PathEnd()
        if z3.is_true(simp):
            return
        self.pc.append(cond)
        self._feas_add(cond)

    def known(self, cond) -> bool:
        """cond is implied by the (quantifier-free part of the) path condition"""
        if z3.is_true(z3.simplify(cond)):
            return True
        self._feas_touch(cond)
        return self.solver.check(z3.Not(cond)) == z3.unsat

    def feasible(self, cond) -> bool:
        self._feas_touch(cond)
        r = self.solver.check(cond)
        return r != z3.unsat

    def fork(self, cond) -> bool:
        if isinstance(cond, bool):
            return cond
        simp = z3.simplify(cond)
        if z3.is_true(simp):
            return True
        if z3.is_false(simp):
            return False
        if self.idx < len(self.decisions):
            d = self.decisions[self.idx]
        else:
            ft = self.feasible(cond)
            ff = self.feasible(z3.Not(cond))
            if ft and ff:
                d = True
                self.pending.append(self.decisions[: self.idx] + [False])
            elif ft:
                d = True
            elif ff:
                d = False
            else:
                raise PathEnd()
            self.decisions.append(d)
        self.idx += 1
        c = cond if d else z3.Not(cond)
        self.pc.append(c)
        self._feas_add(c)
        return d

    def oblige(self, kind, goal, node=None, note='', tag='support'):
        if isinstance(goal, bool):
            goal = z3.BoolVal(goal)
        g = z3.simplify(goal)
        if z3.is_true(g):
            # still recorded: a trivially true obligation is a discharged obligation
            pass
        ob = Obligation(
            oid='', kind=kind, pc=list(self.pc), goal=goal,
            lineno=getattr(node, 'lineno', None), note=note, tag=tag,
            axioms=list(self.path_axioms), vars=dict(self.vars), lemmas=tuple(sorted(self.used_lemmas)),
            inputs=frozenset(getattr(self, 'input_names', ()) or ()),
        )
        self.obls.append(ob)
        # assume it afterwards so one failure is reported once
        if not z3.is_false(g):
            self.pc.append(goal)
            self._feas_add(goal)
        else:
            raise PathEnd()


# --------------------------------------------------------------------------- interpreter

_CMP = {
    ast.Lt: lambda a, b: a < b,
    ast.LtE: lambda a, b: a <= b,
    ast.Gt: lambda a, b: a > b,
    ast.GtE: lambda a, b: a >= b,
}


class Interp:
    """Evaluates statements/expressions of one function activation."""

    def __init__(self, path: Path, module: str, env: dict, spec: bool = False, cls: str | None = None,
                 fname: str = '?', depth: int = 0):
        self.p = path
        self.w = path.w
        self.module = module  # repo-relative file of the code being interpreted (None for contracts)
        self.env = env
        self.spec = spec
        self.cls = cls
        self.fname = fname
        self.depth = depth
        self.loop_ordinal = 0
        self.contract = None  # contract of the function being verified (for loop invariants)
        self.yield_cb = None

    # ---- helpers -------------------------------------------------------------------
    def oos(self, why, node=None):
        raise OutOfSubset(f'{self.fname}: {why}', node)

    def truth(self, v, node=None):
        """python truthiness -> z3 Bool (or python bool)."""
        if isinstance(v, bool):
            return v
        if v is None:
            return False
        if isinstance(v, (int, str)):
            return bool(v)
        if S.is_bool(v):
            return v
        if S.is_int(v):
            return v != 0
        if S.is_str(v):
            return z3.Length(v) > 0
        if S.is_seq(v):
            return z3.Length(v) > 0
        if S.is_val(v):
            return S.truth(v)
        if isinstance(v, Char):
            return True
        if isinstance(v, ArrStr):
            return v.length() > 0
        if type(v).__name__ == 'ArrStrFn':
            return v.s.length() > 0  # capitalize/lower/upper keep emptiness
        if isinstance(v, ArrList):
            return v.n > 0
        if isinstance(v, OptOpaque):
            return v.present
        if isinstance(v, (PRec, ZRec, Closure, BoundMeth, Opaque, PyConst, FuncVal)):
            if isinstance(v, (PRec, ZRec)) and self.dictview(v) is not None:
                return self.dictview(v)[0]() != z3.K(z3.StringSort(), z3.BoolVal(False))
            if isinstance(v, PRec) and 'okeys' in v.f:
                return z3.Length(v.f['okeys']) > 0
            return True
        if isinstance(v, PyTuple):
            return len(v.items) > 0
        if isinstance(v, OpaqueSeq):
            return z3.Length(v.seq) > 0
        if isinstance(v, SetLit):
            return len(v.items) > 0
        if z3.is_expr(v) and z3.is_array(v):
            # a set: non-empty iff not the constant-false array
            return v != z3.K(v.sort().domain(), z3.BoolVal(False))
        if S.is_record(v):
            if self.dictview(v) is not None:
                return self.dictview(v)[0]() != z3.K(z3.StringSort(), z3.BoolVal(False))
            return True
        self.oos(f'truthiness of {type(v).__name__}', node)

    def decide(self, v, node=None) -> bool:
        t = self.truth(v, node)
        if isinstance(t, bool):
            return t
        if self.spec:
            self.oos('decision in spec mode', node)
        return self.p.fork(t)

    def to_val(self, v, node=None):
        """embed a value into Val."""
        if v is None or isinstance(v, (bool, int, str)):
            return S.box(v)
        if S.is_val(v):
            return v
        if isinstance(v, Char):
            return self._char_to_val(v)
        if isinstance(v, PyTuple):
            return Val.vtup(self.seq_of([self.to_val(x, node) for x in v.items]))
        if isinstance(v, Opaque):
            return Val.vobj(z3.IntVal(self.kind_id(v.kind)), v.ident)
        if isinstance(v, ZRec):
            v = v.get()
        if isinstance(v, PRec) and 'dkeys' in v.f:
            return Val.vdict(v.f['dkeys'], v.f['dvals'])
        if S.is_record(v) and 'dkeys' in S.rec_fields(S.record_name(v.sort())):
            return Val.vdict(S.rec_get(v, 'dkeys'), S.rec_get(v, 'dvals'))
        if S.is_record(v):
            f = self.w.uf(f'embed_{S.record_name(v.sort())}', v.sort(), z3.IntSort())
            return Val.vobj(z3.IntVal(self.kind_id(S.record_name(v.sort()))), f(v))
        if z3.is_expr(v):
            try:
                return S.box(v)
            except TypeError:
                pass
        self.oos(f'cannot embed {type(v).__name__} {v!r:.60} into Val', node)

    def _char_to_val(self, c: Char):
        return Val.vstr(self.w.uf('chr_str', z3.IntSort(), z3.StringSort())(c.code))

    def kind_id(self, kind: str) -> int:
        kinds = self.w.__dict__.setdefault('_kinds', {})
        return kinds.setdefault(kind, len(kinds) + 1000)

    def seq_of(self, vals: list, sort=None):
        if not vals:
            return z3.Empty(sort or S.SeqVal)
        units = [z3.Unit(v) for v in vals]
        return units[0] if len(units) == 1 else z3.Concat(*units)

    def as_int(self, v, node=None):
        if isinstance(v, bool):
            return z3.IntVal(int(v))
        if isinstance(v, int):
            return z3.IntVal(v)
        if S.is_int(v):
            return v
        if S.is_bool(v):
            return z3.If(v, 1, 0)
        if S.is_val(v):
            if not self.spec:
                self.p.oblige('type', Val.is_vint(v), node, 'operand is an int')
            return Val.i(v)
        CS = S.UNIONS.get('ColorSpec')
        if CS is not None and z3.is_expr(v) and v.sort() == CS:
            if not self.spec:
                self.p.oblige('type', CS.is_c_idx(v), node, 'colour is an index, not an RGB triple')
            return CS.c_idx__i(v)
        self.oos(f'int expected, got {type(v).__name__}', node)

    def as_str(self, v, node=None):
        if isinstance(v, str):
            return z3.StringVal(v)
        if S.is_str(v):
            return v
        if S.is_val(v):
            if not self.spec:
                self.p.oblige('type', Val.is_vstr(v), node, 'operand is a str')
            return Val.s(v)
        self.oos(f'str expected, got {type(v).__name__}', node)

    def as_seq(self, v, node=None):
        """items of a list-like value as a z3 Seq."""
        if S.is_seq(v):
            return v
        if S.is_val(v):
            if not self.spec:
                self.p.oblige('type', z3.Or(Val.is_vlist(v), Val.is_vclist(v), Val.is_vtup(v)), node, 'operand is a list/tuple')
            return z3.If(Val.is_vlist(v), Val.items(v), z3.If(Val.is_vclist(v), Val.citems(v), Val.titems(v)))
        if isinstance(v, PyTuple):
            return self.seq_of([self.to_val(x, node) for x in v.items])
        self.oos(f'sequence expected, got {type(v).__name__}', node)

    def z(self, v, node=None):
        """python constant -> z3 term where possible."""
        if isinstance(v, bool):
            return z3.BoolVal(v)
        if isinstance(v, int):
            return z3.IntVal(v)
        if isinstance(v, str):
            return z3.StringVal(v)
        if v is None:
            return Val.none
        return v

    # ---- equality ------------------------------------------------------------------
    def eq(self, a, b, node=None):
        if a is None and b is None:
            return True
        if isinstance(a, OpaqueSeq) and isinstance(b, OpaqueSeq):
            return a.seq == b.seq
        if isinstance(a, Char) or isinstance(b, Char):
            if isinstance(a, Char) and isinstance(b, Char):
                return a.code == b.code
            c, o = (a, b) if isinstance(a, Char) else (b, a)
            if isinstance(o, str):
                kind = type(c).__name__
                if kind in ('LowerChar', 'UpperChar'):
                    from . import charclasses as CC
                    pre = CC.lower_preimage(o) if kind == 'LowerChar' else CC.upper_preimage(o)
                    self.w.assumptions.add(f'str.{kind[:5].lower()}() pre-image of {o!r} computed from the running interpreter: {list(pre)}')
                    return self.disj([c.code == cp for cp in pre])
                return c.code == ord(o) if len(o) == 1 else False
            if S.is_str(o):
                return self.w.uf('chr_str', z3.IntSort(), z3.StringSort())(c.code) == o
            if o is None:
                return False
            self.oos('char compared with non-string', node)
        if isinstance(a, PyTuple) and S.is_val(b):
            a = self.to_val(a, node)
        if isinstance(b, PyTuple) and S.is_val(a):
            b = self.to_val(b, node)
        if isinstance(a, PyTuple) and isinstance(b, PyTuple):
            if len(a.items) != len(b.items):
                return False
            cs = [self.eq(x, y, node) for x, y in zip(a.items, b.items)]
            return self.conj(cs)
        if isinstance(a, PRec) and isinstance(b, PRec):
            if a.cls != b.cls:
                return False
            return self.conj([self.eq(a.f[k], b.f[k], node) for k in a.f])
        if isinstance(a, ZRec):
            a = a.get()
        if isinstance(b, ZRec):
            b = b.get()
        if isinstance(a, Opaque) and isinstance(b, Opaque):
            return a.ident == b.ident if a.kind == b.kind else False
        if type(a).__name__ == 'ArrStrFn' or type(b).__name__ == 'ArrStrFn':
            f, o = (a, b) if type(a).__name__ == 'ArrStrFn' else (b, a)
            if isinstance(o, str):
                uf = self.w.uf(f'arrstr_{f.fn}_eq_{o.encode().hex()}', z3.ArraySort(z3.IntSort(), z3.IntSort()),
                               z3.IntSort(), z3.IntSort(), z3.BoolSort())
                return uf(f.s.arr, f.s.lo, f.s.hi)
            self.oos('comparison of a transformed array string', node)
        if isinstance(a, ArrStr) and isinstance(b, str):
            return self.arrstr_eq_lit(a, b)
        if isinstance(b, ArrStr) and isinstance(a, str):
            return self.arrstr_eq_lit(b, a)
        if isinstance(a, ArrStr) and isinstance(b, ArrStr):
            k = self.p.fresh('k', z3.IntSort())
            return z3.And(a.length() == b.length(),
                          z3.ForAll([k], z3.Implies(z3.And(k >= 0, k < a.length()),
                                                    z3.Select(a.arr, a.lo + k) == z3.Select(b.arr, b.lo + k))))
        if isinstance(a, (ArrList,)) or isinstance(b, (ArrList,)):
            self.oos('equality on array-backed list', node)
        za, zb = self.z(a), self.z(b)
        CS = S.UNIONS.get('ColorSpec')
        if CS is not None and z3.is_expr(za) and z3.is_expr(zb):
            if za.sort() == CS and S.is_int(zb):
                return z3.And(CS.is_c_idx(za), CS.c_idx__i(za) == zb)
            if zb.sort() == CS and S.is_int(za):
                return z3.And(CS.is_c_idx(zb), CS.c_idx__i(zb) == za)
        if z3.is_expr(za) and z3.is_expr(zb):
            if za.sort() == zb.sort():
                return za == zb
            if S.is_val(za):
                try:
                    return za == S.box(zb)
                except TypeError:
                    return False
            if S.is_val(zb):
                try:
                    return S.box(za) == zb
                except TypeError:
                    return False
            return False
        if isinstance(a, PyConst) and isinstance(b, PyConst):
            return a.kind == b.kind and a.name == b.name
        if a is None or b is None:
            other = b if a is None else a
            if S.is_val(other):
                return other == Val.none
            return False
        self.oos(f'equality between {type(a).__name__} and {type(b).__name__}', node)

    def conj(self, cs):
        cs = [c for c in cs if c is not True]
        if any(c is False for c in cs):
            return False
        if not cs:
            return True
        return z3.And(*[c if z3.is_expr(c) else z3.BoolVal(c) for c in cs])

    def disj(self, cs):
        cs = [c for c in cs if c is not False]
        if any(c is True for c in cs):
            return True
        if not cs:
            return False
        return z3.Or(*[c if z3.is_expr(c) else z3.BoolVal(c) for c in cs])

    def neg(self, c):
        if isinstance(c, bool):
            return not c
        return z3.Not(c)

    def arrstr_eq_lit(self, a: ArrStr, lit: str):
        cs = [a.length() == len(lit)]
        for k, ch in enumerate(lit):
            cs.append(z3.Select(a.arr, a.lo + k) == ord(ch))
        return z3.And(*cs)

    # ---- statements ----------------------------------------------------------------
    def block(self, stmts):
        for s in stmts:
            self.stmt(s)

    def stmt(self, s):
        m = getattr(self, 'st_' + type(s).__name__, None)
        if m is None:
            self.oos(f'statement {type(s).__name__}', s)
        m(s)

    def st_Pass(self, s):
        pass

    def st_Expr(self, s):
        if isinstance(s.value, ast.Constant):
            return  # docstring
        if isinstance(s.value, ast.Yield):
            return self.do_yield(s.value)
        self.ev(s.value)

    def st_Return(self, s):
        raise Ret(self.ev(s.value) if s.value is not None else None)

    def st_Assign(self, s):
        v = self.ev(s.value)
        for t in s.targets:
            lsig = getattr(self.contract, 'locals_sig', {}) if self.contract is not None else {}
            rn = getattr(self.p, 'renames', None)
            if rn and lsig:
                lsig = {rn.get(k, k): v for k, v in lsig.items()}
            if isinstance(t, ast.Name) and t.id in lsig \
                    and S.is_seq(v) and z3.is_true(z3.simplify(z3.Length(v) == 0)):
                # an empty list literal for a local the contract wants array-backed
                el = lsig[t.id]
                arr = self.p.fresh(t.id + '_a', z3.ArraySort(z3.IntSort(), S.sort_of(el)))
                v = ArrList(arr, z3.IntVal(0), el)
            self.assign(t, v)

    def st_AnnAssign(self, s):
        if s.value is not None:
            self.st_Assign(ast.Assign(targets=[s.target], value=s.value, lineno=s.lineno, col_offset=s.col_offset))

    def st_AugAssign(self, s):
        cur = self.ev(_load(s.target))
        v = self.binop(s.op, cur, self.ev(s.value), s)
        self.assign(s.target, v)

    def st_Assert(self, s):
        t = self.truth(self.ev_test(s.test), s)
        self.p.oblige('assert', t, s, 'assert statement holds')

    def st_If(self, s):
        if self.spec:
            self.oos('if statement in spec mode (use functional form)', s)
        if _mergeable(s):
            return self.merged_if(s)
        if getattr(self.contract, 'merge_ifs', False) and _assign_only(s):
            saved_env, npc = dict(self.env), len(self.p.pc)
            try:
                return self.merged_if(s)
            except OutOfSubset:
                # values that cannot be merged with ite (lists): take the branches as separate paths
                self.env = saved_env
                del self.p.pc[npc:]
        if self.test(s.test):
            self.block(s.body)
        else:
            self.block(s.orelse)

    def merged_if(self, s):
        """`if c: <assignments / list appends>` without control flow: both branches are executed and the
        locals merged with ite(c, ..) -- one path instead of two (keeps straight-line code linear)"""
        c = self.truth(self.ev(s.test), s)
        if isinstance(c, bool):
            return self.block(s.body if c else s.orelse)
        saved = dict(self.env)
        nobl = len(self.p.obls)
        npc = len(self.p.pc)

        def run(stmts, cond):
            self.env = dict(saved)
            self.p.pc.append(cond)
            if not _has_quantifier(cond):
                self.p._feas_touch(cond)  # axioms go in below the push: they are not branch-local
            self.p.solver.push()
            self.p.solver.add(cond) if not _has_quantifier(cond) else None
            try:
                self.block(stmts)
            finally:
                self.p.solver.pop()
                # facts assumed inside the branch hold under its condition only
                inner = self.p.pc[npc + 1:]
                del self.p.pc[npc:]
                for f in inner:
                    self.p.pc.append(z3.Implies(cond, f))
            return self.env

        env_t = run(s.body, c)
        env_f = run(s.orelse, z3.Not(c))
        merged = dict(saved)
        for name in set(env_t) | set(env_f):
            a, b = env_t.get(name), env_f.get(name)
            if a is b:
                merged[name] = a
            elif name in env_t and name in env_f:
                if z3.is_expr(self.z(a)) and z3.is_expr(self.z(b)) and self.z(a).eq(self.z(b)):
                    merged[name] = a
                else:
                    merged[name] = self.ite(c, a, b, s)
            else:
                # defined in one branch only: usable only under that branch's condition; keep it
                merged[name] = a if name in env_t else b
        self.env.clear()
        self.env.update(merged)

    def st_Raise(self, s):
        if s.exc is None:
            cur = self.env.get('__current_exc__')
            if cur is None:
                self.oos('bare raise outside handler', s)
            raise Raised(cur)
        v = self.ev(s.exc)
        if isinstance(v, PyConst) and v.kind == 'excclass':
            v = self.new_exc(v.name, [])
        if z3.is_expr(v) and v.sort() == S.UNIONS.get('Outcome'):
            O = S.UNIONS['Outcome']
            self.p.oblige('type', O.is_o_err(v), s, 'raised value is an exception')
            v = ExcV(O.o_err__cls(v), O.o_err__eid(v), origin='memo')
        if S.is_val(v):
            # a value that holds an exception object (tagged vobj, as in _isinstance1); anything else is a TypeError
            isexc = z3.And(Val.is_vobj(v), Val.ocls(v) >= 0, Val.ocls(v) < len(self.w.exc.names), self.w.exc.is_sub(Val.ocls(v), 'BaseException'))
            if self.p.fork(isexc):
                v = ExcV(Val.ocls(v), Val.oid(v), origin='value')
            else:
                v = self.new_exc('TypeError', [])
        if not isinstance(v, ExcV):
            self.oos('raise of a non-exception value', s)
        raise Raised(v)

    def st_Break(self, s):
        raise Brk()

    def st_Continue(self, s):
        raise Cont()

    def st_Global(self, s):
        pass

    def st_Nonlocal(self, s):
        pass

    def st_FunctionDef(self, s):
        self.env[s.name] = Closure(s, self.env, self.module, self.cls)

    def st_Delete(self, s):
        for t in s.targets:
            if isinstance(t, ast.Subscript) and isinstance(t.slice, ast.Slice):
                get, set_ = self.place(t.value)
                cur = get()
                if not S.is_seq(cur) or t.slice.upper is not None or t.slice.step is not None or t.slice.lower is None:
                    self.oos('del of this slice', s)
                lo = self.as_int(self.ev(t.slice.lower), s)
                ln = z3.Length(cur)
                lo = z3.If(lo > ln, ln, z3.If(lo < 0, z3.If(ln + lo < 0, 0, ln + lo), lo))
                set_(z3.Extract(cur, 0, lo))
                continue
            if isinstance(t, ast.Subscript):
                recv_place = self.place(t.value)
                self.delitem(recv_place, self.ev(t.slice), s)
            else:
                self.oos('del of non-subscript', s)

    def st_Try(self, s):
        def run_finally():
            if s.finalbody:
                self.block(s.finalbody)

        try:
            try:
                self.block(s.body)
            except Raised as r:
                handled = False
                for h in s.handlers:
                    if self.exc_matches(r.exc, h.type, h):
                        handled = True
                        saved = self.env.get('__current_exc__')
                        self.env['__current_exc__'] = r.exc
                        if h.name:
                            self.env[h.name] = r.exc
                        try:
                            self.block(h.body)
                        finally:
                            self.env['__current_exc__'] = saved
                        break
                if not handled:
                    raise
            else:
                self.block(s.orelse)
        except (Raised, Ret, Brk, Cont):
            # the finally body runs, and may itself replace the exit
            run_finally()
            raise
        else:
            run_finally()

    def exc_matches(self, exc: ExcV, typ, node) -> bool:
        if typ is None:
            return True
        names = []
        if isinstance(typ, ast.Tuple):
            names = [self._exc_name(e) for e in typ.elts]
        elif isinstance(typ, ast.BinOp):  # A | B
            names = [self._exc_name(e) for e in _flatten_bitor(typ)]
        else:
            names = [self._exc_name(typ)]
        cond = self.disj([self.w.exc.is_sub(exc.cls, n) for n in names])
        return self.p.fork(cond) if not isinstance(cond, bool) else cond

    def _exc_name(self, e):
        if isinstance(e, ast.Name):
            n = e.id
        elif isinstance(e, ast.Attribute):
            n = e.attr
        else:
            self.oos('exception class expression', e)
        if not self.w.exc.known(n):
            self.oos(f'unknown exception class {n}', e)
        return n

    def new_exc(self, clsname: str, args, origin=None, info=None) -> ExcV:
        eid = self.p.fresh('eid', z3.IntSort())
        e = ExcV(z3.IntVal(self.w.exc.cid(clsname)), eid, origin=origin, info=dict(info or {}))
        e.info.setdefault('args', args)
        return e

    # ---- loops ---------------------------------------------------------------------
    def loop_contract(self, s):
        ordinal = self.loop_ordinal
        self.loop_ordinal += 1
        c = self.contract
        if c is None or ordinal not in c.invariants:
            self.oos(f'loop #{ordinal} without invariant', s)
        from .renames import baseline_locals, names_in, rename_clause
        rn = getattr(self.p, 'renames', None) or {}
        inv = [rename_clause(x, rn) for x in c.invariants[ordinal]]
        dec = c.decreases.get(ordinal)
        dec = rename_clause(dec, rn) if dec else dec
        # a clause about a local of the baseline source that the current source does not have at the loop head (it was removed, or
        # is now assigned inside the loop): the clause is dropped -- a weaker invariant, the proof may then stop going through
        # (undecided), it cannot go through wrongly
        gone = {n for n in (baseline_locals(c.key) - set(rn)) | set(rn.values()) if n not in self.env}
        if gone:
            inv = [x for x in inv if not (names_in([x]) & gone)]
            if dec and names_in([dec]) & gone:
                dec = None
        return ordinal, inv, dec

    def assigned_names(self, stmts) -> set[str]:
        out = set()
        for s in stmts:
            for n in ast.walk(s):
                if isinstance(n, ast.Name) and isinstance(n.ctx, ast.Store):
                    out.add(n.id)
                elif isinstance(n, (ast.Attribute, ast.Subscript)) and isinstance(n.ctx, (ast.Store, ast.Del)):
                    base = n
                    while isinstance(base, (ast.Attribute, ast.Subscript)):
                        base = base.value
                    if isinstance(base, ast.Name):
                        out.add(base.id)
                elif isinstance(n, ast.Call) and isinstance(n.func, ast.Attribute):
                    # method calls may mutate their receiver
                    base = n.func.value
                    while isinstance(base, (ast.Attribute, ast.Subscript)):
                        base = base.value
                    if isinstance(base, ast.Name):
                        out.add(base.id)
                    elif isinstance(base, ast.Call) and isinstance(base.func, ast.Name) and base.func.id == 'super':
                        out.add('self')  # super().method(...) may mutate the receiver
        return out

    def havoc_var(self, name, hint):
        cur = self.env.get(name)
        if isinstance(cur, PRec) and self.contract is not None:
            # an object parameter: only what the contract allows the function to modify can change in a loop
            from .contracts import havoc_paths
            paths = [m for m in self.contract.modifies if m.strip() == name or m.strip().startswith(name + '.')]
            havoc_paths(self, self.env, paths, f'{name}_{hint}')
            return
        new = self.havoc_value(cur, f'{name}_{hint}')
        if new is not cur:
            self.env[name] = new

    def havoc_value(self, cur, hint):
        if cur is None or isinstance(cur, (bool, int, str)):
            cur = self.z(cur)
        if z3.is_expr(cur) and cur.sort() == S.RECORDS.get('RuleResultR') and 'Outcome' in S.UNIONS:
            return self.p.fresh(hint, S.UNIONS['Outcome'])
        if z3.is_expr(cur):
            return self.p.fresh(hint, cur.sort())
        if isinstance(cur, ArrList):
            n = self.p.fresh(hint + '_n', z3.IntSort())
            self.p.assume(n >= 0)
            return ArrList(self.p.fresh(hint + '_a', cur.arr.sort()), n, cur.elem)
        if isinstance(cur, OpaqueSeq):
            return OpaqueSeq(cur.kind, self.p.fresh(hint, cur.seq.sort()))
        if isinstance(cur, ArrStr):
            return cur  # strings are immutable
        if isinstance(cur, Char):
            c = self.p.fresh(hint + '_c', z3.IntSort())
            self.p.assume(z3.And(c >= 0, c <= 0x10FFFF))
            return Char(c)
        if isinstance(cur, PRec):
            for k, v in list(cur.f.items()):
                cur.f[k] = self.havoc_value(v, f'{hint}_{k}')
            return cur
        if cur is None:
            return None
        if isinstance(cur, ZRec):
            cur.set(self.p.fresh(hint, cur.get().sort()))
            return cur
        if isinstance(cur, PyTuple):
            return PyTuple([self.havoc_value(x, f'{hint}_{i}') for i, x in enumerate(cur.items)])
        if isinstance(cur, (Closure, BoundMeth, PyConst, Opaque, SetLit, FuncVal)):
            return cur
        if isinstance(cur, ExcV) and 'Outcome' in S.UNIONS:
            # a local that holds "a rule result or a remembered failure"
            return self.p.fresh(hint, S.UNIONS['Outcome'])
        self.oos(f'cannot havoc {type(cur).__name__}')

    def spec_eval(self, text: str, extra: dict | None = None):
        """evaluate a contract expression string over the current environment (spec mode)."""
        env = dict(self.env)
        if extra:
            env.update(extra)
        sub = Interp(self.p, None, env, spec=True, fname=f'{self.fname}<spec>')
        sub.contract = self.contract
        tree = ast.parse(text.strip(), mode='eval')
        v = sub.ev(tree.body)
        return sub.truth(v)

    def st_While(self, s):
        """`while g: body` against its invariant.  The loop is left (a) before the first iteration, with the state at entry, (b) from
        the end of an iteration (or a `continue`) after which g is false, with the state reached there, (c) by `break`.  An arbitrary
        iteration starts from a havocked state that satisfies the invariant and g; at its end the invariant is re-established (also on
        the way out, so that what follows the loop may use it) and, when another iteration follows, the measure has decreased.  Leaving
        from where the loop actually ends -- rather than from the havocked head with `invariant and not g` -- keeps `break` and a flag
        that is set to False equivalent."""
        if self.spec:
            self.oos('loop in spec mode', s)
        ordinal, inv, dec = self.loop_contract(s)
        if s.orelse:
            self.oos('while/else', s)
        forever = isinstance(s.test, ast.Constant) and s.test.value is True
        for clause in inv:
            self.p.oblige('inv-init', self.spec_eval(clause), s, f'loop#{ordinal} invariant holds on entry: {clause}')
        if not forever and not self.test(s.test):
            return  # no iteration at all
        for name in sorted(self.assigned_names(s.body) & set(self.env)):
            self.havoc_var(name, f'L{ordinal}')
        for clause in inv:
            self.p.assume(self.spec_eval(clause))
        if not forever and not self.test(s.test):
            raise PathEnd()  # an iteration starts only when the guard holds
        m0 = self.spec_int(dec) if dec else None
        try:
            self.block(s.body)
        except Cont:
            pass
        except Brk:
            return
        for clause in inv:
            self.p.oblige('inv-keep', self.spec_eval(clause), s, f'loop#{ordinal} invariant preserved: {clause}')
        if not forever and not self.test(s.test):
            return  # the loop ends here: go on with the state just reached
        if dec:
            m1 = self.spec_int(dec)
            self.p.oblige('decreases', z3.And(m0 >= 0, m1 < m0), s, f'loop#{ordinal} measure {dec} decreases and is bounded', tag='property')
        raise PathEnd()

    def spec_int(self, text):
        env = dict(self.env)
        sub = Interp(self.p, None, env, spec=True, fname=f'{self.fname}<spec>')
        v = sub.ev(ast.parse(text.strip(), mode='eval').body)
        return sub.as_int(v)

    def st_For(self, s):
        if self.spec:
            self.oos('loop in spec mode', s)
        if isinstance(s.iter, ast.Tuple):
            # a loop over a literal tuple is unrolled (no invariant needed); break / continue / else as in python
            broke = False
            for el in s.iter.elts:
                self.assign(s.target, self.ev(el))
                try:
                    self.block(s.body)
                except Cont:
                    continue
                except Brk:
                    broke = True
                    break
            if not broke and s.orelse:
                self.block(s.orelse)
            return
        if s.orelse:
            self.oos('for/else', s)
        if self._search_loop(s):
            return
        it = s.iter
        mapped = None
        if isinstance(it, ast.GeneratorExp) and len(it.generators) == 1 and not it.generators[0].ifs:
            # for x in (f(k) for k in xs):  ==  for k in xs: x = f(k)   (f is evaluated once per element, in order, as in python)
            mapped = (s.target, it.elt)
            s_target, it = it.generators[0].target, it.generators[0].iter
        else:
            s_target = s.target
        enumerate_ = False
        if isinstance(it, ast.Call) and isinstance(it.func, ast.Name) and it.func.id == 'enumerate' and len(it.args) == 1:
            enumerate_ = True
            it = it.args[0]
        seqv = self.ev(it)
        ordinal, inv, dec = self.loop_contract(s)
        length, getter = self.iter_access(seqv, s)
        idx_name = f'__i{ordinal}'
        self.env[idx_name] = z3.IntVal(0)
        self.env[f'__seq{ordinal}'] = seqv  # the iterated sequence, for invariants
        for clause in inv:
            self.p.oblige('inv-init', self.spec_eval(clause), s, f'loop#{ordinal} invariant holds on entry: {clause}')
        targets = self.assigned_names(s.body) | {n.id for n in ast.walk(s.target) if isinstance(n, ast.Name)} \
            | {n.id for n in ast.walk(s_target) if isinstance(n, ast.Name)}
        for name in sorted(targets & set(self.env)):
            self.havoc_var(name, f'L{ordinal}')
        i = self.p.fresh(f'i{ordinal}', z3.IntSort())
        self.env[idx_name] = i
        self.p.assume(z3.And(i >= 0, i <= length))
        for clause in inv:
            self.p.assume(self.spec_eval(clause))
        if self.p.fork(i < length):
            item = getter(i)
            if enumerate_:
                item = PyTuple([i, item])
            self.assign(s_target, item)
            if mapped is not None:
                self.assign(mapped[0], self.ev(mapped[1]))
            try:
                self.block(s.body)
            except Cont:
                pass
            except Brk:
                return
            self.env[idx_name] = i + 1
            for clause in inv:
                self.p.oblige('inv-keep', self.spec_eval(clause), s, f'loop#{ordinal} invariant preserved: {clause}')
            raise PathEnd()
        # exhausted: i == length

    def _search_loop(self, s) -> bool:
        """`for x in xs: if c(x): return K` (nothing else in the body, K a constant) is `if any(c(x) for x in xs): return K`: the
        explicit form of any()/all() needs no invariant.  The test is evaluated as a specification expression, so it has to be
        free of effects (calls of functions under contract without `modifies`/`raises` stand for their defining postcondition)."""
        c = self.contract
        if c is not None and self.loop_ordinal in c.invariants:
            return False
        if len(s.body) != 1 or not isinstance(s.body[0], ast.If) or s.body[0].orelse:
            return False
        branch = s.body[0]
        if len(branch.body) != 1 or not isinstance(branch.body[0], ast.Return):
            return False
        ret = branch.body[0].value
        if not (ret is None or isinstance(ret, ast.Constant)):
            return False
        gen = ast.GeneratorExp(elt=branch.test, generators=[ast.comprehension(target=s.target, iter=s.iter, ifs=[], is_async=0)])
        call = ast.Call(func=ast.Name(id='any', ctx=ast.Load()), args=[gen], keywords=[])
        ast.copy_location(call, s)
        ast.fix_missing_locations(call)
        found = self.truth(self.ev(call), s)
        if self.p.fork(found) if not isinstance(found, bool) else found:
            raise Ret(None if ret is None else ret.value)
        return True

    def iter_access(self, seqv, node):
        if isinstance(seqv, OpaqueSeq):
            return z3.Length(seqv.seq), lambda i: seqv.elem(seqv.seq[i])
        if S.is_record(seqv) and S.record_name(seqv.sort()) == 'AbsStr':
            # a string known only by its length and last character
            f = self.w.uf('absstr_char', seqv.sort(), z3.IntSort(), z3.IntSort())
            return S.rec_get(seqv, 'n'), lambda i: Char(f(seqv, i))
        if isinstance(seqv, PyRange):
            ln = seqv.hi - seqv.lo
            return z3.If(ln < 0, 0, ln), lambda i: seqv.lo + i
        if S.is_seq(seqv):
            return z3.Length(seqv), lambda i: seqv[i]
        if isinstance(seqv, ArrList):
            return seqv.n, lambda i: self.arr_elem(seqv, i)
        if isinstance(seqv, ArrStr):
            return seqv.length(), lambda i: Char(z3.Select(seqv.arr, seqv.lo + i))
        if S.is_str(seqv):
            return z3.Length(seqv), lambda i: z3.SubString(seqv, i, 1)
        if S.is_val(seqv):
            items = self.as_seq(seqv, node)
            return z3.Length(items), lambda i: items[i]
        if isinstance(seqv, PyTuple):
            self.oos('for over python tuple (unroll not supported)', node)
        self.oos(f'for over {type(seqv).__name__}', node)

    def arr_elem(self, al: ArrList, i):
        t = z3.Select(al.arr, i)
        if al.elem.startswith('arrlist['):
            # an element that is itself a list: view the (items, n) record as an array-backed list
            return ArrList(S.rec_get(t, 'items'), S.rec_get(t, 'n'), al.elem[len('arrlist['):-1])
        if al.elem == 'arrstr':
            # element is a line: (base array shared, start/end from side arrays) -- see ArrLines
            self.oos('arrstr element access')
        return t

    # ---- with ----------------------------------------------------------------------
    def st_With(self, s):
        if len(s.items) != 1:
            # nest
            inner = ast.With(items=s.items[1:], body=s.body, lineno=s.lineno, col_offset=s.col_offset)
            outer = ast.With(items=s.items[:1], body=[inner], lineno=s.lineno, col_offset=s.col_offset)
            return self.st_With(outer)
        item = s.items[0]
        call = item.context_expr
        if not isinstance(call, ast.Call):
            self.oos('with on non-call', s)
        # contextlib.suppress
        if isinstance(call.func, ast.Name) and call.func.id == 'suppress':
            names = [self._exc_name(a) for a in call.args]
            try:
                self.block(s.body)
            except Raised as r:
                cond = self.disj([self.w.exc.is_sub(r.exc.cls, n) for n in names])
                if not (cond if isinstance(cond, bool) else self.p.fork(cond)):
                    raise
            return
        fn = self.ev(call.func)
        args = [self.ev(a) for a in call.args]
        kwargs = {('**' if k.arg is None else k.arg): self.ev(k.value) for k in call.keywords}
        target = fn.target if isinstance(fn, BoundMeth) else fn
        from .contracts import Contract, VariantSet
        if isinstance(target, VariantSet):
            target = target.variants[0]  # all variants are contracts of the one function that is interpreted here
        if isinstance(target, Contract):
            # a context manager is always interpreted from its real source at the `with` site
            # (its contract, stated for an arbitrary body, is verified separately)
            node, cls, _ = self.w.repo.find(target.key)
            if node is not None:
                target = Closure(node, {}, target.key.split(':')[0], cls)
                fn = BoundMeth(fn.recv, fn.name, target) if isinstance(fn, BoundMeth) else target
        if isinstance(target, Closure) and _is_contextmanager(target.fn):
            return self.run_manager(fn, args, kwargs, item.optional_vars, s)
        self.oos(f'with: manager {ast.unparse(call.func)} is not an interpretable @contextmanager', s)

    def run_manager(self, fn, args, kwargs, asvar, s):
        target = fn.target if isinstance(fn, BoundMeth) else fn
        recv = fn.recv if isinstance(fn, BoundMeth) else None
        pending = []

        def on_yield(value):
            if asvar is not None:
                self.assign(asvar, value)
            try:
                self.block(s.body)
            except (Ret, Brk, Cont) as ex:
                pending.append(ex)

        sub = self.activation(target, recv, args, kwargs, s)
        sub.yield_cb = on_yield
        sub.yielded = 0
        try:
            sub.block(target.fn.body)
        except Ret:
            pass
        if sub.yielded != 1:
            # a generator that does not yield exactly once raises RuntimeError in contextlib
            self.oos('context manager did not yield exactly once on this path', s)
        if pending:
            raise pending[0]

    def do_yield(self, y):
        if self.yield_cb is None:
            self.oos('yield outside an interpreted context manager', y)
        self.yielded += 1
        v = self.ev(y.value) if y.value is not None else None
        self.yield_cb(v)

    # ---- assignment / places -------------------------------------------------------
    def assign(self, target, v):
        if isinstance(target, ast.Name):
            self.env[target.id] = v
            return
        if isinstance(target, (ast.Tuple, ast.List)):
            items = self.unpack(v, len(target.elts), target)
            for t, x in zip(target.elts, items):
                self.assign(t, x)
            return
        if isinstance(target, ast.Attribute):
            obj = self.ev(target.value)
            return self.setattr(obj, target.attr, v, target)
        if isinstance(target, ast.Subscript):
            pl = self.place(target.value)
            return self.setitem(pl, self.ev(target.slice), v, target)
        self.oos(f'assignment target {type(target).__name__}', target)

    def unpack(self, v, n, node):
        if isinstance(v, PyTuple):
            if len(v.items) != n:
                self.oos('tuple unpack arity', node)
            return v.items
        if S.is_record(v):
            name = S.record_name(v.sort())
            fs = S.rec_fields(name)
            if len(fs) != n:
                self.oos('record unpack arity', node)
            return [S.rec_get(v, f) for f in fs]
        if S.is_seq(v) or S.is_val(v):
            items = self.as_seq(v, node)
            self.p.oblige('safety', z3.Length(items) == n, node, f'unpacking needs exactly {n} items')
            return [items[i] for i in range(n)]
        self.oos(f'unpack of {type(v).__name__}', node)

    def place(self, node):
        """(get, set) for an l-value expression."""
        if isinstance(node, ast.Name):
            name = node.id
            if name not in self.env:
                self.oos(f'unknown name {name}', node)
            return (lambda: self.env[name]), (lambda v: self.env.__setitem__(name, v))
        if isinstance(node, ast.Attribute):
            obj = self.ev(node.value)
            if isinstance(obj, PRec) and node.attr not in obj.f:
                prop = self.find_property(obj, node.attr)
                if prop is not None:
                    body = [b for b in prop.fn.body if not (isinstance(b, ast.Expr) and isinstance(b.value, ast.Constant))]
                    if len(body) == 1 and isinstance(body[0], ast.Return) and body[0].value is not None:
                        # a read-only property that just names another place:  callstack -> self.states.callstack
                        sub = self.activation(prop, obj, [], {}, node)
                        return sub.place(body[0].value)
            return (lambda: self.getattr(obj, node.attr, node)), (lambda v: self.setattr(obj, node.attr, v, node))
        if isinstance(node, ast.Call) and isinstance(node.func, ast.Name) and node.func.id == 'super' and not node.args:
            # super() of a dict/list subclass: the underlying builtin container is `self` itself
            return self.place(ast.Name(id='self', ctx=ast.Load()))
        v = self.ev(node)
        return (lambda: v), (lambda _v: self.oos('assignment through a temporary', node))

    def setattr(self, obj, attr, v, node):
        if isinstance(obj, PRec):
            # property setter?
            prop = self.find_property(obj, attr, setter=True)
            if prop is not None:
                sub = self.activation(prop, obj, [v], {}, node)
                try:
                    sub.block(prop.fn.body)
                except Ret:
                    pass
                return
            if isinstance(obj.f.get(attr), OpaqueSeq) and not isinstance(v, OpaqueSeq):
                # `self.options = []`: an empty python list stored into a field that holds a sequence of opaque things
                if z3.is_expr(v) and S.is_seq(v) and z3.is_true(z3.simplify(z3.Length(v) == 0)):
                    obj.f[attr] = OpaqueSeq(obj.f[attr].kind, z3.Empty(z3.SeqSort(z3.IntSort())))
                    return
                self.oos(f'store of a non-empty list into {obj.cls}.{attr}', node)
            if attr not in obj.f and self.w.registry.classes.get(obj.cls, {}).get('attrview'):
                # attribute table view: obj.name = v  is a store into the table
                k = z3.StringVal(attr)
                obj.f['dkeys'] = z3.Store(obj.f['dkeys'], k, True)
                obj.f['dvals'] = z3.Store(obj.f['dvals'], k, self.to_val(v, node))
                return
            if attr not in obj.f and attr in self.w.registry.classes.get(obj.cls, {}).get('untracked', ()):
                # a field outside every contract's view of this class: the store cannot change a tracked field
                # (distinct attribute, no setter); reads of it yield an unknown value
                return
            if attr not in obj.f and not obj.f.get('__open__'):
                self.oos(f'unknown field {obj.cls}.{attr}', node)
            cur = obj.f.get(attr)
            obj.f[attr] = v if isinstance(v, FuncVal) else self.coerce_like(cur, v, node)
            return
        if isinstance(obj, ZRec):
            cur = S.rec_get(obj.get(), attr)
            if isinstance(v, ZRec):
                v = v.get()
            obj.set(S.rec_set(obj.get(), attr, self.coerce_sort(v, cur.sort(), node)))
            return
        self.oos(f'attribute store on {type(obj).__name__}', node)

    def coerce_like(self, cur, v, node):
        if cur is not None and z3.is_expr(cur):
            if isinstance(v, ZRec):
                v = v.get()
            return self.coerce_sort(v, cur.sort(), node)
        return v

    def coerce_sort(self, v, sort, node):
        if isinstance(v, ArrList) and S.record_name(sort) in S.LIST_RECORDS:
            return S.rec_make(S.record_name(sort), items=v.arr, n=v.n)
        if v is None and sort == S.UNIONS.get('Outcome'):
            return S.UNIONS['Outcome'].o_none
        v = self.z(v)
        if isinstance(v, ZRec):
            v = v.get()
        if isinstance(v, PRec) and 'dkeys' in v.f and sort == Val:
            return Val.vdict(v.f['dkeys'], v.f['dvals'])
        O = S.UNIONS.get('Outcome')
        if O is not None and sort == O:
            if isinstance(v, ExcV):
                return O.o_err(v.cls, v.eid)
            if v is None:
                return O.o_none
            if z3.is_expr(v) and v.sort() == S.RECORDS.get('RuleResultR'):
                return O.o_ok(v)
        if O is not None and z3.is_expr(v) and v.sort() == O and sort == S.RECORDS.get('RuleResultR'):
            if not self.spec:
                self.p.oblige('type', O.is_o_ok(v), node, 'value is a RuleResult')
            return O.o_ok__res(v)
        if z3.is_expr(v):
            if v.sort() == sort:
                return v
            if isinstance(sort, z3.SeqSortRef) and S.is_seq(v) and z3.is_true(z3.simplify(z3.Length(v) == 0)):
                return z3.Empty(sort)
            rn = S.record_name(sort)
            if rn and 'dkeys' in S.rec_fields(rn) and S.is_val(v):
                if not self.spec:
                    self.p.oblige('type', Val.is_vdict(v), node, 'value is a dict')
                return S.rec_make(rn, dkeys=Val.dkeys(v), dvals=Val.dvals(v))
            if sort == Val:
                return self.to_val(v, node)
            if S.is_val(v):
                if sort == z3.IntSort():
                    return self.as_int(v, node)
                if sort == z3.StringSort():
                    return self.as_str(v, node)
                if sort == z3.BoolSort():
                    self.p.oblige('type', Val.is_vbool(v), node, 'value is a bool')
                    return Val.b(v)
                if sort == S.SeqVal:
                    return self.as_seq(v, node)
            if sort == z3.BoolSort() and S.is_int(v):
                return v != 0
        if sort == Val:
            return self.to_val(v, node)
        self.oos(f'cannot coerce {v!r:.50} to sort {sort}', node)

    # ---- expressions ---------------------------------------------------------------
    def test(self, node) -> bool:
        """evaluate a condition and decide it (forks)."""
        if isinstance(node, ast.BoolOp):
            if isinstance(node.op, ast.And):
                for v in node.values:
                    if not self.test(v):
                        return False
                return True
            for v in node.values:
                if self.test(v):
                    return True
            return False
        if isinstance(node, ast.UnaryOp) and isinstance(node.op, ast.Not):
            return not self.test(node.operand)
        return self.decide(self.ev(node), node)

    def ev_test(self, node):
        """evaluate a condition to a value without forking when possible (assert, spec)."""
        return self.ev(node)

    def ev(self, node):
        m = getattr(self, 'ex_' + type(node).__name__, None)
        if m is None:
            self.oos(f'expression {type(node).__name__}', node)
        return m(node)

    def ex_Constant(self, n):
        v = n.value
        if v is Ellipsis:
            self.oos('ellipsis', n)
        if isinstance(v, float) and not self.spec:
            # floats are not modelled: an unknown value that is not None (sound over-approximation; any operation
            # that needs its value is out of subset or yields another unknown)
            t = self.p.fresh('float', Val)
            self.p.assume(z3.Not(Val.is_none(t)))
            return t
        if isinstance(v, (float, bytes, complex)):
            self.oos('float/bytes constant', n)
        return v

    def ex_Name(self, n):
        name = n.id
        if name in self.env:
            return self.env[name]
        return self.global_name(name, n)

    def global_name(self, name, n):
        if name in ('True', 'False', 'None'):
            return {'True': True, 'False': False, 'None': None}[name]
        if name == 'inspect':
            return PyConst('module', 'inspect')
        if name == 'dataclasses':
            return PyConst('module', 'dataclasses')
        if name in ('sys', 'time') and any(k.startswith(name + '.') for k in getattr(self.w.registry, 'extern_funcs', {})):
            return PyConst('module', name)
        if self.w.exc.known(name):
            return PyConst('excclass', self.w.exc.resolve(name))
        if name in BUILTINS:
            return PyConst('builtin', name)
        ext = getattr(self.w.registry, 'extern_funcs', {}).get(name)
        if ext is not None and name not in self.w.registry.specs:
            return PyConst('builtin', ext)
        alias = getattr(self.w.registry, 'class_alias', {}).get(name)
        if alias is not None:
            name = alias
        if name in S.RECORDS:
            return PyConst('record', name)
        if name in self.w.registry.classes:
            return PyConst('class', name)
        if name in self.w.models.bases:
            return PyConst('modelclass', name)
        if name in self.w.registry.specs:
            return PyConst('spec', name, self.w.registry.specs[name])
        if name in self.w.registry.spec_consts:
            return self.py_literal(self.w.registry.spec_consts[name], n)
        if name == 'ast':
            return PyConst('module', 'ast')
        if name == 'UndefinedType':
            return PyConst('astclass', 'UndefinedType')
        if name == 'Undefined':
            # tatsu.util.undefined.Undefined: the single instance of UndefinedType
            return Val.vobj(z3.IntVal(self.kind_id('UndefinedType')), z3.IntVal(0))
        if name in ('closedlist', 'list', 'tuple', 'dict', 'set', 'str', 'int', 'bool', 'frozenset', 'float', 'type'):
            return PyConst('builtin', name)
        # module-level function or constant of the module being interpreted
        if self.module:
            fn, cls, _ = self.w.repo.find(f'{self.module}:{name}')
            if fn is not None:
                key = f'{self.module}:{name}'
                c = self.w.registry.get(key)
                if c is not None:
                    return c
                return Closure(fn, {}, self.module, None)
            ok, val = self.w.repo.module_constant(self.module, name)
            if ok:
                return self.py_literal(val, n)
            # imported name: try the registry by bare function name
            c = self.w.registry.by_name(name)
            if c is not None:
                return c
            const = getattr(self.w.registry, 'import_consts', {}).get(name)
            if const is not None:
                ok, val = self.w.repo.module_constant(const, name)
                if ok:
                    return self.py_literal(val, n)
            imp = self.w.registry.imports.get(name)
            if imp is not None:
                fn, cls, _ = self.w.repo.find(imp)
                if fn is not None:
                    return Closure(fn, {}, imp.split(':')[0], None)
        c = self.w.registry.by_name(name)
        if c is not None:
            return c
        self.oos(f'unknown global name {name}', n)

    def py_literal(self, val, n):
        if isinstance(val, (bool, int, str)) or val is None:
            return val
        if isinstance(val, (set, frozenset)):
            return SetLit(sorted(val, key=repr))
        if isinstance(val, tuple):
            return PyTuple(list(val))
        if isinstance(val, list):
            return self.seq_of([self.to_val(x, n) for x in val])
        if isinstance(val, dict) and all(isinstance(k, str) for k in val):
            keys = z3.K(z3.StringSort(), z3.BoolVal(False))
            vals = z3.K(z3.StringSort(), Val.none)
            for k, v in val.items():
                keys = z3.Store(keys, z3.StringVal(k), True)
                vals = z3.Store(vals, z3.StringVal(k), self.to_val(v, n))
            return Val.vdict(keys, vals)
        self.oos(f'module constant of type {type(val).__name__}', n)

    def ex_NamedExpr(self, n):
        v = self.ev(n.value)
        self.assign(n.target, v)
        return v

    def ex_BoolOp(self, n):
        if self.spec:
            vals = [self.truth(self.ev(v), v) for v in n.values]
            return self.conj(vals) if isinstance(n.op, ast.And) else self.disj(vals)
        # value semantics: return first falsy (and) / truthy (or) operand
        last = None
        for i, vn in enumerate(n.values):
            last = self.ev(vn)
            if i == len(n.values) - 1:
                return last
            t = self.decide(last, vn)
            if isinstance(n.op, ast.And) and not t:
                return last
            if isinstance(n.op, ast.Or) and t:
                return last
        return last

    def ex_UnaryOp(self, n):
        v = self.ev(n.operand)
        if isinstance(n.op, ast.Not):
            t = self.truth(v, n)
            return self.neg(t)
        if isinstance(n.op, ast.USub):
            if isinstance(v, int) and not isinstance(v, bool):
                return -v
            return -self.as_int(v, n)
        self.oos('unary operator', n)

    def ex_IfExp(self, n):
        if self.spec:
            c = self.truth(self.ev(n.test), n)
            if isinstance(c, bool):
                return self.ev(n.body) if c else self.ev(n.orelse)
            a = self.ev(n.body)
            b = self.ev(n.orelse)
            return self.ite(c, a, b, n)
        return self.ev(n.body) if self.test(n.test) else self.ev(n.orelse)

    def ite(self, c, a, b, n):
        if isinstance(a, PyTuple) and isinstance(b, PyTuple) and len(a.items) == len(b.items):
            return PyTuple([self.ite(c, x, y, n) for x, y in zip(a.items, b.items)])
        if isinstance(a, ZRec):
            a = a.get()
        if isinstance(b, ZRec):
            b = b.get()
        def _fv(v):
            if isinstance(v, BoundMeth) and isinstance(v.recv, Opaque) and isinstance(v.target, PyConst) \
                    and v.target.kind == 'opaquemethod' and v.target.name in self.w.registry.generic:
                return FuncVal(v.target.name, v.recv.ident)
            return v

        a, b = _fv(a), _fv(b)
        if isinstance(a, Opaque) and isinstance(b, Opaque) and a.kind == b.kind:
            return Opaque(a.kind, z3.If(c, a.ident, b.ident))
        if isinstance(a, FuncVal) and isinstance(b, FuncVal) and a.contract == b.contract:
            return FuncVal(a.contract, z3.If(c, a.ident, b.ident))
        za, zb = self.z(a), self.z(b)
        if isinstance(za, bool) or isinstance(zb, bool):
            za = z3.BoolVal(za) if isinstance(za, bool) else za
            zb = z3.BoolVal(zb) if isinstance(zb, bool) else zb
        if z3.is_expr(za) and z3.is_expr(zb):
            if za.sort() != zb.sort():
                za, zb = self.to_val(za, n), self.to_val(zb, n)
            return z3.If(c, za, zb)
        self.oos('conditional expression over non-term values in spec mode', n)

    def ex_Compare(self, n):
        left = self.ev(n.left)
        results = []
        for op, rn in zip(n.ops, n.comparators):
            right = self.ev(rn)
            results.append(self.compare(op, left, right, n))
            left = right
        if len(results) == 1:
            return results[0]
        return self.conj(results)

    def compare(self, op, a, b, n):
        if isinstance(op, ast.Eq):
            return self.eq(a, b, n)
        if isinstance(op, ast.NotEq):
            return self.neg(self.eq(a, b, n))
        if isinstance(op, ast.Is):
            return self.is_(a, b, n)
        if isinstance(op, ast.IsNot):
            return self.neg(self.is_(a, b, n))
        if isinstance(op, ast.In):
            return self.contains(b, a, n)
        if isinstance(op, ast.NotIn):
            return self.neg(self.contains(b, a, n))
        if type(op) in _CMP:
            if isinstance(a, str) or isinstance(b, str) or S.is_str(a) or S.is_str(b):
                self.oos('string ordering', n)
            if isinstance(a, (int,)) and isinstance(b, (int,)) and not S.is_int(a) and not S.is_int(b):
                return _CMP[type(op)](a, b)
            return _CMP[type(op)](self.as_int(a, n), self.as_int(b, n))
        self.oos('comparison operator', n)

    def is_(self, a, b, n):
        if a is None or b is None:
            o = b if a is None else a
            if o is None:
                return True
            if isinstance(o, OptOpaque):
                return self.neg(o.present)
            if z3.is_expr(o) and o.sort() == S.UNIONS.get('Outcome'):
                return S.UNIONS['Outcome'].is_o_none(o)
            if S.is_val(o):
                return o == Val.none
            return False
        if isinstance(a, bool) or isinstance(b, bool):
            return self.eq(a, b, n)
        if isinstance(a, PRec) and isinstance(b, PRec):
            return a is b
        if isinstance(a, Opaque) and isinstance(b, Opaque):
            return a.ident == b.ident
        if isinstance(a, PyConst) and isinstance(b, PyConst):
            return a.kind == b.kind and a.name == b.name
        if isinstance(a, PRec) or isinstance(b, PRec):
            return False
        undef = Val.vobj(z3.IntVal(self.kind_id('UndefinedType')), z3.IntVal(0))
        if S.is_val(a) and S.is_val(b) and (a.eq(undef) or b.eq(undef)):
            # identity with the singleton Undefined is equality of values
            return a == b
        self.oos('`is` between non-None values', n)

    def contains(self, container, x, n):
        if isinstance(container, PyRange):
            xi = self.as_int(x, n)
            return z3.And(xi >= container.lo, xi < container.hi)
        if isinstance(container, SetLit):
            return self.disj([self.eq(x, it, n) for it in container.items])
        if isinstance(container, PyTuple):
            return self.disj([self.eq(x, it, n) for it in container.items])
        if isinstance(container, str) or S.is_str(container):
            if isinstance(x, Char):
                if isinstance(container, str):
                    return self.disj([x.code == ord(c) for c in container])
                self.oos('char in symbolic string', n)
            return z3.Contains(self.as_str(container), self.as_str(x, n))
        if z3.is_expr(container) and z3.is_array(container):
            if isinstance(x, Char):
                if container.sort().domain() == z3.IntSort():
                    return z3.Select(container, x.code)
                return z3.Select(container, self.w.uf('chr_str', z3.IntSort(), z3.StringSort())(x.code))
            xx = self.z(x)
            if S.is_val(xx) and container.sort().domain() == z3.StringSort():
                xx = self.as_str(xx, n)
            return z3.Select(container, xx)
        if S.is_seq(container):
            return z3.Contains(container, z3.Unit(self.coerce_sort(x, container.sort().basis(), n)))
        if self.dictview(container) is not None:
            return z3.Select(self.dictview(container)[0](), self.as_str(x, n))
        if isinstance(container, PRec) and 'mkeys' in container.f:
            return z3.Select(container.f['mkeys'], self.coerce_sort(x, container.f['mkeys'].sort().domain(), n))
        if isinstance(container, PRec) and 'okeys' in container.f:
            return z3.Contains(container.f['okeys'], z3.Unit(self.coerce_sort(x, container.f['okeys'].sort().basis(), n)))
        if isinstance(container, ArrList):
            k = z3.FreshConst(z3.IntSort(), 'm')
            xx = self.coerce_sort(x, container.arr.sort().range(), n)
            return z3.Exists([k], z3.And(k >= 0, k < container.n, z3.Select(container.arr, k) == xx))
        if S.is_val(container):
            # dict membership (AST) or list membership
            self.p.oblige('type', Val.is_vdict(container), n, '`in` on a dict value')
            return z3.Select(Val.dkeys(container), self.as_str(x, n))
        self.oos(f'`in` on {type(container).__name__}', n)

    def ex_BinOp(self, n):
        return self.binop(n.op, self.ev(n.left), self.ev(n.right), n)

    def binop(self, op, a, b, n):
        if isinstance(op, ast.Add):
            if isinstance(a, str) and isinstance(b, str):
                return a + b
            if isinstance(a, str) or isinstance(b, str) or S.is_str(a) or S.is_str(b):
                return self.str_concat([a if isinstance(a, str) else self.as_str(a, n), b if isinstance(b, str) else self.as_str(b, n)])
            if isinstance(a, ArrList) or isinstance(b, ArrList):
                return self.arrlist_concat(a, b, n)
            if S.is_seq(a) or S.is_seq(b):
                return z3.Concat(self.as_seq(a, n), self.as_seq(b, n))
            if S.is_val(a) and S.is_val(b) and not self.spec:
                # list + list (cstmerge) or int + int: decide by the operand's tag
                if self.p.fork(Val.is_vint(a)):
                    return self.as_int(a, n) + self.as_int(b, n)
                self.p.oblige('type', z3.And(S.is_listlike(a), S.is_listlike(b)), n, 'list + list')
                return z3.Concat(S.listlike_items(a), S.listlike_items(b))
            if isinstance(a, int) and isinstance(b, int) and not isinstance(a, bool):
                return a + b
            return self.as_int(a, n) + self.as_int(b, n)
        if isinstance(a, Opaque) and a.kind == 'any' or isinstance(b, Opaque) and b.kind == 'any':
            return Opaque('any', self.p.fresh('arith', z3.IntSort()))  # arithmetic on a value nothing is known about (floats, clocks)
        if isinstance(op, ast.Sub):
            if isinstance(a, int) and isinstance(b, int) and not z3.is_expr(a) and not z3.is_expr(b):
                return a - b
            return self.as_int(a, n) - self.as_int(b, n)
        if isinstance(op, ast.Mult):
            if isinstance(a, int) and isinstance(b, int) and not z3.is_expr(a) and not z3.is_expr(b):
                return a * b
            if (isinstance(a, str) or S.is_str(a)) and not (isinstance(b, str) or S.is_str(b)):
                return self.str_repeat(a, self.as_int(b, n), n)
            if (isinstance(b, str) or S.is_str(b)) and not (isinstance(a, str) or S.is_str(a)):
                return self.str_repeat(b, self.as_int(a, n), n)
            if S.is_seq(a) or S.is_seq(b) or isinstance(a, str) or isinstance(b, str):
                self.oos('sequence repetition', n)
            return self.as_int(a, n) * self.as_int(b, n)
        if isinstance(op, ast.FloorDiv):
            bb = self.as_int(b, n)
            self.p.oblige('safety', bb != 0, n, 'division by zero')
            aa = self.as_int(a, n)
            return self.floordiv(aa, bb)
        if isinstance(op, ast.Mod):
            if isinstance(a, str) or S.is_str(a):
                self.oos('% string formatting', n)
            bb = self.as_int(b, n)
            self.p.oblige('safety', bb != 0, n, 'modulo by zero')
            aa = self.as_int(a, n)
            return aa - bb * self.floordiv(aa, bb)
        if isinstance(op, ast.BitOr):
            if z3.is_expr(a) and z3.is_array(a) and z3.is_expr(b) and z3.is_array(b):
                return z3.SetUnion(a, b)
            if isinstance(a, (PyConst, PyTuple)) and isinstance(b, (PyConst, PyTuple)):
                items = (a.items if isinstance(a, PyTuple) else [a]) + (b.items if isinstance(b, PyTuple) else [b])
                return PyTuple(items)
        if isinstance(op, ast.Pow) and isinstance(a, int) and isinstance(b, int) and not isinstance(a, bool) and 0 <= b <= 64:
            return a ** b
        self.oos(f'binary operator {type(op).__name__}', n)

    # ---- array-backed lists ----------------------------------------------------------
    def to_arrlist(self, v, elem, node=None):
        """a list value given structurally (units of a z3 Seq) as an array-backed list of `elem`"""
        if isinstance(v, ArrList):
            return v
        es = S.sort_of(elem)
        if S.is_seq(v):
            parts = self.seq_parts(v)
            arr = self.p.fresh('lst_a', z3.ArraySort(z3.IntSort(), es))
            i = 0
            for part in parts:
                if z3.is_app(part) and part.decl().kind() == z3.Z3_OP_SEQ_UNIT:
                    arr = z3.Store(arr, i, self.coerce_sort(part.arg(0), es, node))
                    i += 1
                elif z3.is_app(part) and part.decl().kind() == z3.Z3_OP_SEQ_EMPTY:
                    continue
                else:
                    self.oos('list of unknown shape where an array-backed list is needed', node)
            return ArrList(arr, z3.IntVal(i), elem)
        self.oos(f'cannot view {type(v).__name__} as an array-backed list', node)

    def arrlist_concat(self, a, b, node):
        elem = a.elem if isinstance(a, ArrList) else b.elem
        a, b = self.to_arrlist(a, elem, node), self.to_arrlist(b, elem, node)
        if z3.is_int_value(z3.simplify(b.n)) and z3.simplify(b.n).as_long() <= 4:
            arr, n = a.arr, a.n
            for j in range(z3.simplify(b.n).as_long()):
                arr = z3.Store(arr, n + j, z3.simplify(z3.Select(b.arr, j)))
            return ArrList(arr, z3.simplify(n + b.n), elem)
        c = self.p.fresh('cat_a', a.arr.sort())
        k = z3.Int('k!cat')
        ax = z3.ForAll([k], z3.Select(c, k) == z3.If(k < a.n, z3.Select(a.arr, k), z3.Select(b.arr, k - a.n)))
        self.p.path_axioms.append(ax)
        self.p.pc.append(ax)
        return ArrList(c, a.n + b.n, elem)

    def arrlist_slice(self, obj: ArrList, sl, n):
        lo, hi = self.slice_bounds(sl, obj.n, n)
        if z3.is_int_value(lo) and lo.as_long() == 0:
            return ArrList(obj.arr, hi, obj.elem)  # a prefix shares the array (lists built here are never mutated in place through two names)
        c = self.p.fresh('slc_a', obj.arr.sort())
        k = z3.Int('k!slc')
        ax = z3.ForAll([k], z3.Select(c, k) == z3.Select(obj.arr, k + lo))
        self.p.path_axioms.append(ax)
        self.p.pc.append(ax)
        return ArrList(c, z3.simplify(hi - lo), obj.elem)

    def floordiv(self, a, b):
        # z3 integer division rounds so that the remainder is non-negative; python floors
        # z3 `div` rounds so that the remainder is non-negative; python floors
        q = a / b
        return z3.If(b > 0, q, z3.If((a % b) == 0, q, q - 1))

    # ---- collections displays ------------------------------------------------------
    def ex_List(self, n):
        if n.elts and not any(isinstance(e, ast.Starred) for e in n.elts):
            vals = [self.ev(e) for e in n.elts]
            inner = next((v for v in vals if isinstance(v, ArrList)), None)
            if inner is not None:
                # a list of lists, at least one of them array-backed: an array-backed list of (items, n) records
                elem = f'arrlist[{inner.elem}]'
                es = S.sort_of(elem)
                arr = self.p.fresh('lol_a', z3.ArraySort(z3.IntSort(), es))
                for j, v in enumerate(vals):
                    arr = z3.Store(arr, j, self.coerce_sort(self.to_arrlist(v, inner.elem, n), es, n))
                return ArrList(arr, z3.IntVal(len(vals)), elem)
            return self._list_of(vals, n.elts)
        parts = []
        for e in n.elts:
            if isinstance(e, ast.Starred):
                v = self.ev(e.value)
                parts.append(self.as_seq(v, e))
            else:
                v = self.ev(e)
                if isinstance(v, ZRec):
                    parts.append(z3.Unit(v.get()))
                elif S.is_record(v):
                    parts.append(z3.Unit(v))
                else:
                    parts.append(z3.Unit(self.to_val(v, e)))
        if not parts:
            return z3.Empty(S.SeqVal)
        return parts[0] if len(parts) == 1 else z3.Concat(*parts)

    def _list_of(self, vals, nodes):
        parts = []
        for v, e in zip(vals, nodes):
            if isinstance(v, ZRec):
                parts.append(z3.Unit(v.get()))
            elif S.is_record(v):
                parts.append(z3.Unit(v))
            else:
                parts.append(z3.Unit(self.to_val(v, e)))
        return parts[0] if len(parts) == 1 else z3.Concat(*parts)

    def ex_Tuple(self, n):
        if any(isinstance(e, ast.Starred) for e in n.elts):
            self.oos('starred tuple display', n)
        return PyTuple([self.ev(e) for e in n.elts])

    def ex_Set(self, n):
        return SetLit([self.ev(e) for e in n.elts])

    def ex_Dict(self, n):
        if n.keys:
            if self.spec and all(isinstance(k, ast.Constant) and isinstance(k.value, str) for k in n.keys):
                keys = z3.K(z3.StringSort(), z3.BoolVal(False))
                vals = z3.K(z3.StringSort(), Val.none)
                for k, v in zip(n.keys, n.values):
                    keys = z3.Store(keys, z3.StringVal(k.value), True)
                    vals = z3.Store(vals, z3.StringVal(k.value), self.to_val(self.ev(v), n))
                return Val.vdict(keys, vals)
            if all(k is not None for k in n.keys):
                keys = z3.K(z3.StringSort(), z3.BoolVal(False))
                vals = z3.K(z3.StringSort(), Val.none)
                for k, v in zip(n.keys, n.values):
                    kk = self.as_str(self.ev(k), n)
                    keys = z3.Store(keys, kk, True)
                    vals = z3.Store(vals, kk, self.to_val(self.ev(v), n))
                return Val.vdict(keys, vals)
            self.oos('dict display with ** unpacking', n)
        return Val.vdict(z3.K(z3.StringSort(), z3.BoolVal(False)), z3.K(z3.StringSort(), Val.none))

    def ex_JoinedStr(self, n):
        parts = []
        for v in n.values:
            if isinstance(v, ast.Constant):
                parts.append(v.value)
            elif isinstance(v, ast.FormattedValue):
                try:
                    if v.format_spec is not None:
                        parts.append(self.format_padded(v, n))
                        continue
                    x = self.ev(v.value)
                    parts.append(self.str_of(x, v, repr_=(v.conversion == ord('r'))))
                except OutOfSubset:
                    # the text of a message is never relied upon: an unconstrained string
                    parts.append(self.p.fresh('fmt', z3.StringSort()))
        if not parts:
            return z3.StringVal('')
        return self.str_concat(parts)

    # ---- strings with a display width (theory `display_width`) -------------------------
    def str_concat(self, parts):
        """concatenation of python-str / z3 String parts; with the theory `display_width` switched on, the ground instance
        width(p1 ++ ... ++ pn) == width(p1) + ... + width(pn) of the (trusted) additivity of the display width is recorded"""
        terms = [z3.StringVal(x) if isinstance(x, str) else x for x in parts]
        t = terms[0] if len(terms) == 1 else z3.Concat(*terms)
        if 'display_width' in getattr(self.p, 'theories', ()) and len(terms) > 1:
            f = self.w.uf('display_width', z3.StringSort(), z3.IntSort())
            self.p.assume(f(t) == z3.Sum([self.width_of(x) for x in parts]))
            if isinstance(parts[-1], str) and parts[-1]:
                # the text without its literal tail (ground instance of  (a ++ "lit")[:-len("lit")] == a): lets invariants speak
                # about `s[:-n]` of the strings built here
                head = terms[0] if len(terms) == 2 else z3.Concat(*terms[:-1])
                self.p.assume(z3.SubString(t, 0, z3.Length(t) - len(parts[-1])) == head)
                if len(terms) > 2:
                    self.p.assume(f(head) == z3.Sum([self.width_of(x) for x in parts[:-1]]))
        return t

    def width_of(self, x, node=None):
        f = self.w.uf('display_width', z3.StringSort(), z3.IntSort())
        if isinstance(x, Char):
            self.oos('display width of an array-string character', node)
        if not isinstance(x, str):
            x = self.as_str(x, node)
            if z3.is_string_value(x):
                import re as _re
                x = _re.sub(r'\\u\{([0-9a-fA-F]+)\}', lambda m: chr(int(m.group(1), 16)), x.as_string())
        if isinstance(x, str):
            self.w.assumptions.add('display widths of string literals are computed with this interpreter\'s unicodedata.east_asian_width (as tatsu.util.strtools.unicode_display_len does)')
            wd = display_width(x)
            if 'display_width' in getattr(self.p, 'theories', ()):
                self.p.assume(f(z3.StringVal(x)) == wd)
            return z3.IntVal(wd)
        if not getattr(self.p, '_dw_nonneg', False):
            self.p._dw_nonneg = True
            sv = z3.Const('s!dw', z3.StringSort())
            ax = z3.ForAll([sv], f(sv) >= 0)
            # every character is one or two columns wide: not needed by the proofs (and costly for them), but a counter-model
            # that respects it can be rebuilt from real characters -- used when a refuted obligation is re-solved for replay
            if not hasattr(self.w, 'model_hints'):
                self.w.model_hints = {}
            self.w.model_hints['display_width'] = lambda t: z3.And(f(t) >= z3.Length(t), f(t) <= 2 * z3.Length(t))
            self.p.path_axioms.append(ax)
            self.p.pc.append(ax)
        return f(x)

    def str_repeat(self, s, k, node):
        """s * k for a symbolic count: a fresh string with the facts python guarantees about it"""
        if isinstance(k, int) or z3.is_int_value(k):
            kk = k if isinstance(k, int) else k.as_long()
            if kk <= 0:
                return z3.StringVal('')
            if kk <= 8:
                return self.str_concat([s] * kk)
        st = z3.StringVal(s) if isinstance(s, str) else s
        r = self.p.fresh('rep', z3.StringSort())
        cnt = z3.If(k > 0, k, 0)
        ln = len(s) if isinstance(s, str) else z3.Length(st)
        self.p.assume(z3.Length(r) == cnt * ln)
        self.p.assume(z3.Implies(cnt == 0, r == z3.StringVal('')))
        self.p.assume(z3.Implies(cnt == 1, r == st))
        if 'display_width' in getattr(self.p, 'theories', ()):
            f = self.w.uf('display_width', z3.StringSort(), z3.IntSort())
            self.p.assume(f(r) == cnt * self.width_of(s, node))
        return r

    def format_padded(self, v, n):
        """f'{x:{width}}' / f'{x:N}' for a str x: left-aligned, padded with blanks to `width` code points"""
        spec = v.format_spec
        svals = [x for x in getattr(spec, 'values', []) if not (isinstance(x, ast.Constant) and x.value == '')]
        if v.conversion != -1 or not isinstance(spec, ast.JoinedStr) or len(svals) != 1:
            self.oos('f-string format spec', n)
        sv = svals[0]
        if isinstance(sv, ast.Constant) and isinstance(sv.value, str) and sv.value.isdigit():
            width = int(sv.value)
        elif isinstance(sv, ast.FormattedValue) and sv.format_spec is None and sv.conversion == -1:
            width = self.ev(sv.value)
            if not (isinstance(width, int) and not isinstance(width, bool)) and not S.is_int(width):
                self.oos('f-string format spec', n)
        else:
            self.oos('f-string format spec', n)
        x = self.ev(v.value)
        if not (isinstance(x, str) or S.is_str(x)):
            self.oos('f-string format spec on a non-str value', n)
        w = self.as_int(width, n)
        if not self.spec:
            self.p.oblige('safety', w >= 0, n, 'format width is not negative (ValueError: sign not allowed in string format specifier)', tag='safety')
        ln = len(x) if isinstance(x, str) else z3.Length(x)
        pad = self.str_repeat(' ', w - ln, n)
        return self.str_concat([x, pad])

    def str_of(self, x, node, repr_=False):
        if isinstance(x, ExcV):
            return self.w.uf('exc_str', z3.IntSort(), z3.StringSort())(x.eid)
        if isinstance(x, str) and not repr_:
            return z3.StringVal(x)
        if isinstance(x, int) and not isinstance(x, bool) and not repr_:
            return z3.StringVal(str(x))
        if S.is_str(x) and not repr_:
            return x
        CS = S.UNIONS.get('ColorSpec')
        if CS is not None and z3.is_expr(x) and x.sort() == CS:
            return z3.IntToStr(self.as_int(x, node))
        if S.is_int(x) or isinstance(x, int):
            return z3.IntToStr(self.as_int(x)) if not isinstance(x, bool) else z3.StringVal(str(x))
        f = self.w.uf('py_repr' if repr_ else 'uf_keyword_text__Val', Val, z3.StringSort())
        return f(self.to_val(x, node))

    # ---- subscripts ----------------------------------------------------------------
    def ex_Subscript(self, n):
        if not self.spec and not isinstance(n.slice, ast.Slice) and (isinstance(n.value, ast.Attribute) or (isinstance(n.value, ast.Name) and n.value.id in self.env)):
            get, set_ = self.place(n.value)
            obj = get()
            if S.is_seq(obj):
                rn = S.record_name(obj.sort().basis())
                if rn and S.RECORD_MUTABLE.get(rn):
                    idxv = self.ev(n.slice)
                    if idxv == -1 and isinstance(idxv, int) and self.seq_from_end(obj, 1) is not None:
                        # the last frame: a view that stays on the same absolute slot
                        depth = len(self.seq_parts(obj))

                        def _getl(depth=depth):
                            parts = self.seq_parts(get())
                            return parts[depth - 1].children()[0]

                        def _setl(t, depth=depth):
                            parts = self.seq_parts(get())
                            parts[depth - 1] = z3.Unit(t)
                            set_(self.seq_join(parts, obj.sort()))

                        try:
                            _getl()
                            return ZRec(rn, _getl, _setl)
                        except Exception:  # noqa: BLE001
                            pass
                    i = self.norm_index(idxv, z3.Length(obj), n)
                    i = z3.simplify(i)

                    def _set(t, i=i):
                        cur = get()
                        set_(z3.Concat(z3.Extract(cur, 0, i), z3.Unit(t), z3.Extract(cur, i + 1, z3.Length(cur) - i - 1)))

                    return ZRec(rn, lambda i=i: get()[i], _set)
            if isinstance(n.slice, ast.Slice):
                return self.slice(obj, n.slice, n)
            return self.getitem(obj, self.ev(n.slice), n)
        obj = self.ev(n.value)
        if isinstance(n.slice, ast.Slice):
            return self.slice(obj, n.slice, n)
        return self.getitem(obj, self.ev(n.slice), n)

    @staticmethod
    def seq_parts(seq):
        """flatten nested concatenations into parts"""
        if z3.is_app(seq) and seq.decl().kind() == z3.Z3_OP_SEQ_CONCAT:
            out = []
            for c in seq.children():
                out.extend(Interp.seq_parts(c))
            return out
        if z3.is_app(seq) and seq.decl().kind() == z3.Z3_OP_SEQ_EMPTY:
            return []
        return [seq]

    @staticmethod
    def seq_join(parts, sort):
        if not parts:
            return z3.Empty(sort)
        return parts[0] if len(parts) == 1 else z3.Concat(*parts)

    def seq_from_end(self, seq, k):
        """(prefix, [last k elements]) when the last k parts are units, else None"""
        if S.is_str(seq):
            return None
        parts = self.seq_parts(seq)
        if len(parts) < k:
            return None
        tail = parts[len(parts) - k:]
        if all(z3.is_app(t) and t.decl().kind() == z3.Z3_OP_SEQ_UNIT for t in tail):
            return self.seq_join(parts[: len(parts) - k], seq.sort()), [t.children()[0] for t in tail]
        return None

    def norm_index(self, idx, length, node, what='index'):
        """python index normalisation with bounds obligation; returns the 0-based index term."""
        if isinstance(idx, int) and not isinstance(idx, bool):
            i = z3.IntVal(idx) if idx >= 0 else length + idx
        else:
            ii = self.as_int(idx, node)
            if self.spec:
                # contract expressions: a symbolic index is taken as non-negative
                i = ii
            else:
                i = (length + ii) if self.p.fork(ii < 0) else ii
        if not self.spec:
            self.p.oblige('safety', z3.And(i >= 0, i < length), node, f'{what} in range (IndexError)', tag='safety')
        return i

    def getitem(self, obj, idx, n):
        if isinstance(obj, ZRec):
            obj = obj.get()
        if S.is_seq(obj):
            if isinstance(idx, int) and not isinstance(idx, bool) and idx < 0:
                st = self.seq_from_end(obj, -idx)
                if st is not None:
                    return st[1][0]
            i = self.norm_index(idx, z3.Length(obj), n)
            return obj[i]
        if S.is_str(obj):
            i = self.norm_index(idx, z3.Length(obj), n)
            return z3.SubString(obj, i, 1)
        if isinstance(obj, ArrStr):
            i = self.norm_index(idx, obj.length(), n)
            c = z3.Select(obj.arr, obj.lo + i)
            return Char(c)
        if isinstance(obj, ArrList):
            i = self.norm_index(idx, obj.n, n)
            return self.arr_elem(obj, i)
        if isinstance(obj, OpaqueSeq):
            i = self.norm_index(idx, z3.Length(obj.seq), n)
            return obj.elem(obj.seq[i])
        if S.is_record(obj) and S.record_name(obj.sort()) == 'AbsStr':
            ln = S.rec_get(obj, 'n')
            i = self.norm_index(idx, ln, n)
            f = self.w.uf('absstr_char', obj.sort(), z3.IntSort(), z3.IntSort())
            if isinstance(idx, int) and idx == -1:
                return Char(S.rec_get(obj, 'last'))
            return Char(f(obj, i))
        if isinstance(obj, PyTuple):
            if isinstance(idx, int):
                return obj.items[idx]
            self.oos('symbolic index into python tuple', n)
        if self.dictview(obj) is not None:
            if isinstance(obj, (PRec, ZRec)):
                get, where = self.find_method(obj.cls, '__getitem__')
                if get is not None and not self.spec:
                    return self.call_closure(Closure(get, {}, where[0], where[1]), obj, [idx], {}, n)
            return self.dict_getitem(obj, idx, n)
        if z3.is_expr(obj) and z3.is_array(obj):
            return z3.Select(obj, self.z(idx))
        if S.is_val(obj):
            if isinstance(idx, str) or S.is_str(idx):
                self.p.oblige('type', Val.is_vdict(obj), n, 'subscript of a dict value')
                k = self.as_str(idx)
                if not self.spec:
                    self.p.oblige('safety', z3.Select(Val.dkeys(obj), k), n, 'key present (KeyError)', tag='safety')
                return z3.Select(Val.dvals(obj), k)
            items = self.as_seq(obj, n)
            i = self.norm_index(idx, z3.Length(items), n)
            return items[i]
        if S.is_record(obj) and isinstance(idx, int):
            name = S.record_name(obj.sort())
            return S.rec_get(obj, S.rec_fields(name)[idx])
        self.oos(f'subscript of {type(obj).__name__}', n)

    def slice(self, obj, sl, n):
        if sl.step is not None:
            self.oos('slice step', n)
        if isinstance(obj, ZRec):
            obj = obj.get()
        if S.is_val(obj):
            obj = self.as_seq(obj, n)
        if S.is_seq(obj) and sl.lower is None and isinstance(sl.upper, ast.UnaryOp) and isinstance(sl.upper.op, ast.USub) \
                and isinstance(sl.upper.operand, ast.Constant) and isinstance(sl.upper.operand.value, int):
            st = self.seq_from_end(obj, sl.upper.operand.value)
            if st is not None:
                return st[0]
        if S.is_seq(obj) or S.is_str(obj) or isinstance(obj, str):
            s = self.as_str(obj) if (S.is_str(obj) or isinstance(obj, str)) else obj
            ln = z3.Length(s)
            lo, hi = self.slice_bounds(sl, ln, n)
            return z3.Extract(s, lo, hi - lo) if not S.is_str(s) else z3.SubString(s, lo, hi - lo)
        if isinstance(obj, ArrStr):
            lo, hi = self.slice_bounds(sl, obj.length(), n)
            return ArrStr(obj.arr, obj.lo + lo, obj.lo + hi)
        if isinstance(obj, ArrList):
            return self.arrlist_slice(obj, sl, n)
        self.oos(f'slice of {type(obj).__name__}', n)

    def slice_bounds(self, sl, ln, n):
        if self.spec:
            # contract expressions: slice bounds are taken literally (0 <= lo <= hi <= len is the
            # contract author's obligation); negative constants count from the end
            def lit(v, default):
                if v is None:
                    return default
                x = self.ev(v)
                if isinstance(x, int) and not isinstance(x, bool) and x < 0:
                    return ln + x
                return self.as_int(x, n)
            return lit(sl.lower, z3.IntVal(0)), lit(sl.upper, ln)

        def clamp(v, default):
            if v is None:
                return default
            x = self.ev(v)
            if isinstance(x, int) and not isinstance(x, bool) and x < 0:
                xi = ln + x
            else:
                xi = self.as_int(x, n)
                if not self.p.known(xi >= 0):
                    xi = z3.If(xi < 0, ln + xi, xi)
            if not self.p.known(xi >= 0):
                xi = z3.If(xi < 0, 0, xi)
            if not self.p.known(xi <= ln):
                xi = z3.If(xi > ln, ln, xi)
            return xi

        lo = clamp(sl.lower, z3.IntVal(0))
        hi = clamp(sl.upper, ln)
        if not self.p.known(hi >= lo):
            hi = z3.If(hi < lo, lo, hi)
        return z3.simplify(lo), z3.simplify(hi)

    def setitem(self, pl, idx, v, n):
        get, set_ = pl
        obj = get()
        if self.dictview(obj) is not None:
            if isinstance(obj, (PRec, ZRec)):
                setter, where = self.find_method(obj.cls, '__setitem__')
                if setter is not None:
                    key = f'{where[0]}:{where[1]}.__setitem__'
                    c = self.w.registry.get(key)
                    if c is not None:
                        return self.call_contract(c, obj, [idx, v], {}, n)
                    return self.call_closure(Closure(setter, {}, where[0], where[1]), obj, [idx, v], {}, n)
            return self.dict_setitem(obj, idx, v, n)
        if isinstance(obj, PRec) and 'okeys' in obj.f:
            return self.odict_setitem(obj, idx, v, n)
        if isinstance(obj, PRec) and 'mkeys' in obj.f:
            k = self.coerce_sort(idx, obj.f['mkeys'].sort().domain(), n)
            obj.f['mkeys'] = z3.Store(obj.f['mkeys'], k, True)
            obj.f['mvals'] = z3.Store(obj.f['mvals'], k, self.coerce_sort(v, obj.f['mvals'].sort().range(), n))
            return
        if isinstance(obj, ArrList):
            i = self.norm_index(idx, obj.n, n)
            set_(ArrList(z3.Store(obj.arr, i, self.coerce_sort(v, obj.arr.sort().range(), n)), obj.n, obj.elem))
            return
        if S.is_seq(obj):
            i = self.norm_index(idx, z3.Length(obj), n)
            el = self.coerce_sort(v, obj.sort().basis(), n)
            set_(z3.Concat(z3.Extract(obj, 0, i), z3.Unit(el), z3.Extract(obj, i + 1, z3.Length(obj) - i - 1)))
            return
        if z3.is_expr(obj) and z3.is_array(obj):
            set_(z3.Store(obj, self.coerce_sort(idx, obj.sort().domain(), n), self.coerce_sort(v, obj.sort().range(), n)))
            return
        if S.is_val(obj):
            # dict value (AST held by value)
            self.p.oblige('type', Val.is_vdict(obj), n, 'item assignment on a dict value')
            k = self.as_str(idx, n)
            set_(Val.vdict(z3.Store(Val.dkeys(obj), k, True), z3.Store(Val.dvals(obj), k, self.to_val(v, n))))
            return
        self.oos(f'item assignment on {type(obj).__name__}', n)

    def delitem(self, pl, idx, n):
        get, set_ = pl
        obj = get()
        if isinstance(obj, PRec) and 'okeys' in obj.f:
            return self.odict_delitem(obj, idx, n)
        if self.dictview(obj) is not None:
            gk, sk, _, _ = self.dictview(obj)
            k = self.as_str(idx, n)
            self.p.oblige('safety', z3.Select(gk(), k), n, 'key present (KeyError)', tag='safety')
            sk(z3.Store(gk(), k, False))
            return
        self.oos(f'del item on {type(obj).__name__}', n)

    # ---- dict models ---------------------------------------------------------------
    def dictview(self, d):
        """(keys(), set_keys, vals(), set_vals) of a string-keyed dict model, or None."""
        if isinstance(d, PRec) and 'dkeys' in d.f:
            return (lambda: d.f['dkeys'], lambda t: d.f.__setitem__('dkeys', t),
                    lambda: d.f['dvals'], lambda t: d.f.__setitem__('dvals', t))
        if isinstance(d, ZRec) and 'dkeys' in S.rec_fields(d.cls):
            return (lambda: S.rec_get(d.get(), 'dkeys'), lambda t: d.set(S.rec_set(d.get(), 'dkeys', t)),
                    lambda: S.rec_get(d.get(), 'dvals'), lambda t: d.set(S.rec_set(d.get(), 'dvals', t)))
        if S.is_record(d) and 'dkeys' in S.rec_fields(S.record_name(d.sort())):
            ro = lambda _t: self.oos('store into an immutable dict value')
            return (lambda: S.rec_get(d, 'dkeys'), ro, lambda: S.rec_get(d, 'dvals'), ro)
        return None

    def dict_getitem(self, d, idx, n):
        gk, _, gv, _ = self.dictview(d)
        k = self.as_str(idx, n)
        if not self.spec:
            self.p.oblige('safety', z3.Select(gk(), k), n, 'key present (KeyError)', tag='safety')
        return z3.Select(gv(), k)

    def dict_setitem(self, d, idx, v, n):
        gk, sk, gv, sv = self.dictview(d)
        k = self.as_str(idx, n)
        sk(z3.Store(gk(), k, True))
        sv(z3.Store(gv(), k, self.coerce_sort(v, gv().sort().range(), n)))

    # ordered dict model: okeys = Seq(K) in insertion order (distinct), ovals = Array(K, V)
    def odict_setitem(self, d: PRec, idx, v, n):
        ks = d.f['okeys']
        k = self.coerce_sort(idx, ks.sort().basis(), n)
        present = z3.Contains(ks, z3.Unit(k))
        if not self.p.fork(present):
            d.f['okeys'] = z3.Concat(ks, z3.Unit(k))
        d.f['ovals'] = z3.Store(d.f['ovals'], k, self.coerce_sort(v, d.f['ovals'].sort().range(), n))

    def odict_delitem(self, d: PRec, idx, n):
        ks = d.f['okeys']
        k = self.coerce_sort(idx, ks.sort().basis(), n)
        self.p.oblige('safety', z3.Contains(ks, z3.Unit(k)), n, 'key present (KeyError)', tag='safety')
        if z3.simplify(ks[0]).eq(z3.simplify(k)) or ks[0].eq(k):
            # deleting the first key: the rest of the sequence
            d.f['okeys'] = z3.Extract(ks, 1, z3.Length(ks) - 1)
            return
        # ks = A ++ [k] ++ B with k not in A  (exists because k is present);  result A ++ B
        a = self.p.fresh('before', ks.sort())
        b = self.p.fresh('after', ks.sort())
        self.p.assume(ks == z3.Concat(a, z3.Unit(k), b))
        self.p.assume(z3.Not(z3.Contains(a, z3.Unit(k))))
        d.f['okeys'] = z3.Concat(a, b)

    # ---- attributes ----------------------------------------------------------------
    def ex_Attribute(self, n):
        obj = self.ev(n.value)
        return self.getattr(obj, n.attr, n)

    def find_method(self, clsname: str, attr: str):
        """look `attr` up along the MRO declared for record class `clsname`."""
        info = self.w.registry.classes.get(clsname)
        if info is None:
            return None, None
        for key in info['mro']:
            rel, cname = key.split(':')
            cdef = self.w.repo.find_class(rel, cname)
            if cdef is None:
                continue
            for child in cdef.body:
                if isinstance(child, ast.FunctionDef) and child.name == attr:
                    return child, (rel, cname)
                if isinstance(child, ast.Assign) and len(child.targets) == 1 and isinstance(child.targets[0], ast.Name) \
                        and child.targets[0].id == attr and isinstance(child.value, ast.Name):
                    # alias:  _token = token
                    return self.find_method(clsname, child.value.id)
        return None, None

    def find_property(self, obj, attr, setter=False):
        cls = obj.cls
        info = self.w.registry.classes.get(cls)
        if info is None:
            return None
        for key in info['mro']:
            rel, cname = key.split(':')
            cdef = self.w.repo.find_class(rel, cname)
            if cdef is None:
                continue
            for child in cdef.body:
                if isinstance(child, ast.FunctionDef) and child.name == attr:
                    decs = [ast.unparse(d) for d in child.decorator_list]
                    if setter and f'{attr}.setter' in decs:
                        return Closure(child, {}, rel, cname)
                    if not setter and ('property' in decs or 'cached_property' in decs):
                        return Closure(child, {}, rel, cname)
        return None

    def getattr(self, obj, attr, n):
        if isinstance(obj, PyConst):
            return self.const_attr(obj, attr, n)
        if isinstance(obj, PRec):
            if attr in obj.f:
                v = obj.f[attr]
                return self.wrap_field(v, lambda: obj.f[attr], lambda t: obj.f.__setitem__(attr, t))
            if attr in self.w.registry.classes.get(obj.cls, {}).get('untracked', ()):
                return self.p.fresh(f'{obj.cls}.{attr}', Val)
            prop = self.find_property(obj, attr)
            if prop is not None:
                key = f'{prop.module}:{prop.cls}.{attr}'
                sub = self.activation(prop, obj, [], {}, n)
                try:
                    sub.block(prop.fn.body)
                except Ret as r:
                    return r.value
                return None
            fn, where = self.find_method(obj.cls, attr)
            if fn is not None:
                key = f'{where[0]}:{where[1]}.{fn.name}'
                c = self.w.registry.get(key)
                if c is not None and not self.w.registry.force_inline(key) and self._self_sort_fits(c, obj.cls):
                    return BoundMeth(obj, fn.name, c)
                return BoundMeth(obj, fn.name, Closure(fn, {}, where[0], where[1]))
            if self.w.registry.classes.get(obj.cls, {}).get('attrview'):
                k = z3.StringVal(attr)
                if not self.spec:
                    self.p.oblige('safety', z3.Select(obj.f['dkeys'], k), n, f'attribute {attr} present (AttributeError)', tag='safety')
                return z3.Select(obj.f['dvals'], k)
            if 'dkeys' in obj.f or 'okeys' in obj.f:
                return BoundMeth(obj, attr, PyConst('dictmethod', attr))
            if 'mkeys' in obj.f:
                return BoundMeth(obj, attr, PyConst('memomethod', attr))
            self.oos(f'unknown attribute {obj.cls}.{attr}', n)
        if isinstance(obj, ZRec):
            name = obj.cls
            if attr in S.rec_fields(name):
                t = S.rec_get(obj.get(), attr)
                return self.wrap_field(t, lambda: S.rec_get(obj.get(), attr), lambda v: obj.set(S.rec_set(obj.get(), attr, v)))
            prop = self.find_property(obj, attr)
            if prop is not None:
                sub = self.activation(prop, obj, [], {}, n)
                try:
                    sub.block(prop.fn.body)
                except Ret as r:
                    return r.value
                return None
            fn, where = self.find_method(name, attr)
            if fn is not None:
                key = f'{where[0]}:{where[1]}.{fn.name}'
                c = self.w.registry.get(key)
                if c is not None and not self.w.registry.force_inline(key):
                    return BoundMeth(obj, fn.name, c)
                return BoundMeth(obj, fn.name, Closure(fn, {}, where[0], where[1]))
            if self.dictview(obj) is not None:
                return BoundMeth(obj, attr, PyConst('dictmethod', attr))
            self.oos(f'unknown attribute {name}.{attr}', n)
        if S.is_record(obj):
            name = S.record_name(obj.sort())
            if attr in S.rec_fields(name):
                kind = getattr(self.w.registry, 'record_field_kind', {}).get((name, attr))
                if kind and kind.startswith('func:'):
                    return FuncVal(kind.split(':', 1)[1], S.rec_get(obj, attr))
                if kind and kind.startswith('opaque:'):
                    return Opaque(kind.split(':', 1)[1], S.rec_get(obj, attr))
                return S.rec_get(obj, attr)
            if attr == '_replace':
                return BoundMeth(obj, '_replace', PyConst('ntmethod', '_replace'))
            # properties of immutable records (NamedTuple) are interpreted from source
            fn, where = self.find_method(name, attr)
            if fn is not None:
                decs = [ast.unparse(d) for d in fn.decorator_list]
                clo = Closure(fn, {}, where[0], where[1])
                if 'property' in decs:
                    sub = self.activation(clo, obj, [], {}, n)
                    try:
                        sub.block(fn.body)
                    except Ret as r:
                        return r.value
                    return None
                key = f'{where[0]}:{where[1]}.{fn.name}'
                cc = self.w.registry.get(key)
                if cc is not None and not self.w.registry.force_inline(key) and self._self_sort_fits(cc, name):
                    return BoundMeth(obj, attr, cc)
                return BoundMeth(obj, attr, clo)
            self.oos(f'unknown attribute {name}.{attr}', n)
        CS = S.UNIONS.get('ColorSpec')
        if CS is not None and z3.is_expr(obj) and obj.sort() == CS and attr in ('r', 'g', 'b'):
            if not self.spec:
                self.p.oblige('type', CS.is_c_rgb(obj), n, 'colour is an RGB triple')
            return S.rec_get(CS.c_rgb__rgb(obj), attr)
        if isinstance(obj, Opaque):
            return self.opaque_attr(obj, attr, n)
        if isinstance(obj, ExcV):
            return self.exc_attr(obj, attr, n)
        if (S.is_str(obj) or isinstance(obj, (str, ArrStr, Char)) or S.is_seq(obj) or S.is_val(obj)
                or isinstance(obj, (ArrList, SetLit, PyTuple)) or (z3.is_expr(obj) and z3.is_array(obj))):
            return BoundMeth(obj, attr, PyConst('valuemethod', attr))
        self.oos(f'attribute {attr} of {type(obj).__name__}', n)

    def _self_sort_fits(self, c, cls) -> bool:
        """a contract stated for one representation of `self` is not used for another one"""
        variants = getattr(c, 'variants', [c])
        srts = [v.sig.get('self') for v in variants]
        return any(srt is None or srt.split('{')[0].strip() == cls for srt in srts)

    def wrap_field(self, v, get, set_):
        """mutable z3 records read from a field become write-through views."""
        if S.is_record(v):
            name = S.record_name(v.sort())
            if S.RECORD_MUTABLE.get(name):
                return ZRec(name, get, set_)
        return v

    def const_attr(self, c: PyConst, attr, n):
        if c.kind == 'traceback' and attr == 'tb_next':
            # tb_next is None  <=>  the exception was raised by the call itself (argument binding), not inside the callee
            e = c.obj
            inside = e.info.get('inside')
            if inside is None:
                return None if e.origin is None else Val.vobj(z3.IntVal(0), z3.IntVal(0))
            return z3.If(inside, Val.vobj(z3.IntVal(0), z3.IntVal(0)), Val.none)
        if c.kind == 'module' and c.name == 'ast':
            if attr == 'walk':
                return PyConst('builtin', 'ast_walk')
            return PyConst('astclass', attr)
        if c.kind == 'module' and c.name == 'dataclasses':
            if attr in ('replace', 'is_dataclass'):
                return PyConst('builtin', f'dataclasses_{attr}')
            self.oos(f'dataclasses.{attr}', n)
        if c.kind == 'module':
            ext = getattr(self.w.registry, 'extern_funcs', {}).get(f'{c.name}.{attr}')
            if ext is not None:
                return PyConst('builtin', ext)
            return self.global_name(attr, n)
        if c.kind in ('class', 'record'):
            # static / class methods, e.g. PosLine.build_line_cache, RuleInfo.new
            info = self.w.registry.classes.get(c.name)
            if info:
                fn, where = self.find_method(c.name, attr)
                if fn is not None:
                    key = f'{where[0]}:{where[1]}.{fn.name}'
                    cc = self.w.registry.get(key)
                    if cc is not None:
                        return cc
                    return Closure(fn, {}, where[0], where[1])
        if c.kind == 'spec' and isinstance(c.obj, dict):
            if attr in c.obj:
                return PyConst('spec', attr, c.obj[attr])
        self.oos(f'attribute {attr} of {c.kind} {c.name}', n)

    def opaque_attr(self, o: Opaque, attr, n):
        decl = self.w.registry.opaque_attrs.get((o.kind, attr)) or self.w.registry.opaque_attrs.get(('*', attr))
        if decl is None:
            me = self.env.get('self')
            if isinstance(me, Opaque) and me.kind == o.kind and self.cls and self.module:
                # a method of the class the verified function belongs to that no contract mentions (e.g. a helper extracted from
                # the function): interpreted from its source like any other callee without a contract
                cdef = self.w.repo.find_class(self.module, self.cls)
                for item in (cdef.body if cdef is not None else []):
                    if isinstance(item, ast.FunctionDef) and item.name == attr:
                        return BoundMeth(o, attr, Closure(item, {}, self.module, self.cls))
            self.oos(f'undeclared attribute {attr} of opaque {o.kind}', n)
        kind, sortname = decl
        if kind == 'contract':
            return BoundMeth(o, attr, self.w.registry.contracts[sortname])
        if kind == 'ufmethod':
            # a method known only as an uninterpreted function of the object:  name:sort
            fname, rs = sortname.split(':')
            return BoundMeth(o, attr, PyConst('ufmethod', f'{fname}:{rs}'))
        if kind == 'method':
            return BoundMeth(o, attr, PyConst('opaquemethod', sortname))
        if kind == 'attrcall':
            # a method without parameters whose result is a function of the object: obj.m() is opaque_value(...)
            return BoundMeth(o, attr, PyConst('attrcall', sortname, (o.kind, attr, o.ident)))
        return self.opaque_value(sortname, f'{o.kind}.{attr}', o.ident)

    def opaque_value(self, sortname, fname, ident):
        if sortname.startswith('opaque:'):
            f = self.w.uf(f'attr_{fname}', z3.IntSort(), z3.IntSort())
            return Opaque(sortname.split(':', 1)[1], f(ident))
        if sortname.startswith('optopaque:'):
            f = self.w.uf(f'attr_{fname}', z3.IntSort(), z3.IntSort())
            h = self.w.uf(f'has_{fname}', z3.IntSort(), z3.BoolSort())
            return OptOpaque(sortname.split(':', 1)[1], f(ident), h(ident))
        if sortname.startswith('seq[opaque:'):
            f = self.w.uf(f'attr_{fname}', z3.IntSort(), z3.SeqSort(z3.IntSort()))
            return OpaqueSeq(sortname[len('seq[opaque:'):-1], f(ident))
        if sortname.startswith('func:'):
            f = self.w.uf(f'attr_{fname}', z3.IntSort(), z3.IntSort())
            return FuncVal(sortname.split(':', 1)[1], f(ident))
        srt = S.sort_of(sortname)
        if srt is None:
            raise OutOfSubset(f'opaque attribute sort {sortname}')
        f = self.w.uf(f'attr_{fname}', z3.IntSort(), srt)
        return f(ident)

    def exc_attr(self, e: ExcV, attr, n):
        if attr == '__traceback__':
            return PyConst('traceback', 'tb', e)
        if attr in e.info:
            return e.info[attr]
        decl = self.w.registry.exc_attrs.get(attr)
        if decl is None:
            self.oos(f'attribute {attr} of an exception', n)
        f = self.w.uf(f'exc_{attr}', z3.IntSort(), S.sort_of(decl))
        return f(e.eid)

    # ---- calls ---------------------------------------------------------------------
    def ex_Call(self, n):
        # super().method(...) on dict subclasses
        fn = self.ev_callee(n.func)
        args = []
        for a in n.args:
            if isinstance(a, ast.Starred):
                v = self.ev(a.value)
                if isinstance(v, GenExp) and len(v.node.generators) == 1 and not v.node.generators[0].ifs and not self.spec:
                    v = v.interp.comp_as_arrlist(v.node.elt, v.node.generators[0], n)
                if isinstance(v, PyTuple):
                    args.extend(v.items)
                else:
                    args.append(StarV(v))
            else:
                args.append(self.ev(a))
        kwargs = {}
        for k in n.keywords:
            if k.arg is None:
                v = self.ev(k.value)
                if isinstance(v, dict):
                    kwargs.update(v)
                else:
                    kwargs['**'] = v
            else:
                kwargs[k.arg] = self.ev(k.value)
        return self.call(fn, args, kwargs, n)

    def ev_callee(self, f):
        if isinstance(f, ast.Attribute) and isinstance(f.value, ast.Call) and isinstance(f.value.func, ast.Name) \
                and f.value.func.id == 'super' and not f.value.args:
            me = self.env.get('self')
            attrview = isinstance(me, PRec) and self.w.registry.classes.get(me.cls, {}).get('attrview')
            if not attrview and ((isinstance(me, PRec) and 'okeys' in me.f) or self.dictview(me) is not None):
                return BoundMeth(me, f.attr, PyConst('dictmethod', 'super.' + f.attr))
            return BoundMeth(me, f.attr, PyConst('supermethod', f.attr))
        if isinstance(f, ast.Attribute) and f.attr in LIST_MUT:
            get, set_ = self.place(f.value)
            cur = get()
            if S.is_seq(cur) or isinstance(cur, ArrList) or S.is_val(cur):
                return BoundMeth((get, set_), f.attr, PyConst('listmethod', f.attr))
            return self.getattr(cur, f.attr, f)
        return self.ev(f)

    def call(self, fn, args, kwargs, n):
        from .contracts import Contract

        from .contracts import VariantSet
        if isinstance(fn, BoundMeth):
            t = fn.target
            if isinstance(t, (Contract, VariantSet)):
                return self.call_contract(t, fn.recv, args, kwargs, n)
            if isinstance(t, Closure):
                return self.call_closure(t, fn.recv, args, kwargs, n)
            if isinstance(t, PyConst):
                from . import builtins_model as B
                return B.method(self, fn.recv, fn.name, t, args, kwargs, n)
        if isinstance(fn, (Contract, VariantSet)):
            return self.call_contract(fn, None, args, kwargs, n)
        if isinstance(fn, Closure):
            return self.call_closure(fn, None, args, kwargs, n)
        if isinstance(fn, FuncVal):
            c = self.w.registry.generic[fn.contract]
            nparams = len(c.sig) - 1
            if any(isinstance(a, StarV) for a in args) or '**' in kwargs:
                # f(x, *fixed, **fixed): the extra arguments are part of what the function value stands for
                self.w.assumptions.add(f'{fn.contract}: extra *args / **kwargs passed along with the payload are fixed per call site and folded into the function value')
                args = [a for a in args if not isinstance(a, StarV)]
                kwargs = {k: v for k, v in kwargs.items() if k != '**'}
            if len(args) > nparams:
                args = args[len(args) - nparams:]  # bound-method style call f(instance, ctx)
            return self.call_contract(c, None, [fn, *args], kwargs, n)
        if isinstance(fn, PyConst):
            from . import builtins_model as B
            return B.function(self, fn, args, kwargs, n)
        self.oos(f'call of {type(fn).__name__}', n)

    def activation(self, clo: Closure, recv, args, kwargs, n) -> 'Interp':
        fn = clo.fn
        env = dict(clo.env) if clo.env else {}
        a = fn.args
        params = [p.arg for p in a.posonlyargs + a.args]
        decs = [ast.unparse(d) for d in getattr(fn, 'decorator_list', [])]
        vals = list(args)
        if recv is not None and 'staticmethod' not in decs:
            vals = [recv, *vals]
        if a.vararg and len(vals) > len(params):
            env[a.vararg.arg] = PyTuple(vals[len(params):])
            vals = vals[: len(params)]
        elif a.vararg:
            env[a.vararg.arg] = PyTuple([])
        if len(vals) > len(params):
            self.oos(f'too many arguments for {fn.name if hasattr(fn, "name") else "lambda"}', n)
        defaults = a.defaults
        ndef = len(defaults)
        for i, pname in enumerate(params):
            if i < len(vals):
                env[pname] = vals[i]
            elif pname in kwargs:
                env[pname] = kwargs.pop(pname)
            else:
                di = i - (len(params) - ndef)
                if di < 0:
                    self.oos(f'missing argument {pname}', n)
                env[pname] = self.const_default(defaults[di], n)
        for p, d in zip(a.kwonlyargs, a.kw_defaults):
            if p.arg in kwargs:
                env[p.arg] = kwargs.pop(p.arg)
            elif d is not None:
                env[p.arg] = self.const_default(d, n)
            else:
                self.oos(f'missing keyword argument {p.arg}', n)
        if a.kwarg:
            env[a.kwarg.arg] = dict(kwargs)
            kwargs = {}
        if kwargs:
            self.oos(f'unexpected keyword arguments {list(kwargs)}', n)
        if self.depth > 40:
            self.oos('inline depth exceeded (recursion without contract?)', n)
        sub = Interp(self.p, clo.module, env, spec=self.spec, cls=clo.cls,
                     fname=getattr(fn, 'name', '<lambda>'), depth=self.depth + 1)
        sub.contract = None
        return sub

    def const_default(self, d, n):
        try:
            return ast.literal_eval(d)
        except Exception:
            sub = Interp(self.p, self.module, {}, spec=True, fname='<default>')
            return sub.ev(d)

    def call_closure(self, clo: Closure, recv, args, kwargs, n):
        fn = clo.fn
        if isinstance(fn, ast.Lambda):
            sub = self.activation(clo, recv, args, kwargs, n)
            return sub.ev(fn.body)
        if _is_contextmanager(fn):
            self.oos('context manager called outside with', n)
        sub = self.activation(clo, recv, args, kwargs, n)
        if self.spec:
            return sub.functional(fn.body, n)
        try:
            sub.block(fn.body)
        except Ret as r:
            return r.value
        return None

    def functional(self, stmts, n):
        """spec-mode evaluation of a function body written as if/return chains (no forking)."""
        if not stmts:
            return None
        s, rest = stmts[0], stmts[1:]
        if isinstance(s, ast.Expr) and isinstance(s.value, ast.Constant):
            return self.functional(rest, n)
        if isinstance(s, ast.Return):
            return self.ev(s.value) if s.value is not None else None
        if isinstance(s, (ast.Assign, ast.AnnAssign, ast.AugAssign)):
            self.stmt(s)
            return self.functional(rest, n)
        if isinstance(s, ast.If):
            c = self.truth(self.ev(s.test), s)
            if isinstance(c, bool):
                return self.functional((s.body if c else s.orelse) + rest, n)
            saved = dict(self.env)
            a = self.functional(s.body + rest, n)
            self.env = dict(saved)
            b = self.functional(s.orelse + rest, n)
            self.env = saved
            return self.ite(c, a, b, s)
        if isinstance(s, ast.Assert):
            return self.functional(rest, n)
        self.oos(f'spec function statement {type(s).__name__}', s)

    def call_contract(self, c, recv, args, kwargs, n):
        from .contracts import VariantSet, apply_contract, bind_params, pick_variant
        if isinstance(c, VariantSet):
            c = pick_variant(self, c, recv, args, kwargs, n)
        if self.spec and getattr(c, 'pure', False) and not c.modifies and not c.raises:
            from .contracts import _pure_result
            env = bind_params(self, c, recv, args, kwargs, n)
            return _pure_result(self, c, env, c.key.split(':')[-1])
        if self.spec:
            # inside a contract/spec expression (e.g. under all()/any()): a pure function under contract
            # stands for its defining postcondition `result == <expr>` (the induction hypothesis on sub-terms)
            node = None
            for _tag, clause in c.clauses():
                cand = ast.parse(clause.strip(), mode='eval').body
                if isinstance(cand, ast.Compare) and len(cand.ops) == 1 and isinstance(cand.ops[0], ast.Eq) \
                        and ast.unparse(cand.left) == 'result':
                    node = cand
                    break
            if c.modifies or c.raises or node is None:
                self.oos(f'call of {c.key} inside a specification expression', n)
            env = bind_params(self, c, recv, args, kwargs, n)
            sub = Interp(self.p, None, env, spec=True, fname=f'<{c.key}>')
            return sub.ev(node.comparators[0])
        return apply_contract(self, c, recv, args, kwargs, n)

    def ex_Lambda(self, n):
        return Closure(n, self.env, self.module, self.cls)

    def ex_ListComp(self, n):
        if len(n.generators) == 1 and not n.generators[0].ifs and not self.spec:
            return self.comp_as_arrlist(n.elt, n.generators[0], n)
        self.oos('list comprehension', n)

    def comp_as_arrlist(self, elt, gen, n):
        """[f(x) for x in xs] where f(x) is a list described by a contract: an array-backed list of lists whose j-th element
        satisfies, for EVERY j, what one evaluation of f(xs[j]) for an arbitrary index j establishes (the fresh symbols of that
        evaluation become functions of j).  Obligations raised by the evaluation hold for the arbitrary j, hence for all."""
        p = self.p
        seqv = self.ev(gen.iter)
        ln, getter = self.iter_access(seqv, n)
        j = z3.FreshConst(z3.IntSort(), 'j')
        rng = z3.And(j >= 0, j < ln)
        mark_pc, mark_ax, idx0 = len(p.pc), len(p.path_axioms), p.idx
        p.solver.push()
        p.fresh_log = []
        try:
            p.pc.append(rng)
            p.solver.add(rng)
            sub = Interp(p, self.module, dict(self.env), spec=False, cls=self.cls, fname=self.fname + '<comp>', depth=self.depth + 1)
            sub.contract = self.contract
            sub.assign(gen.target, getter(j))
            r = sub.ev(elt)
        finally:
            fresh = p.fresh_log
            p.fresh_log = None
            added = p.pc[mark_pc + 1:]
            del p.pc[mark_pc:]
            added_ax = p.path_axioms[mark_ax:]
            del p.path_axioms[mark_ax:]
            p.solver.pop()
        if p.idx != idx0:
            self.oos('comprehension whose element expression branches', n)
        if not isinstance(r, ArrList):
            self.oos('comprehension whose elements are not contract-described lists', n)
        subst = [(c, self.w.uf(f'sk_{c.decl().name()}', z3.IntSort(), c.sort())(j)) for c in fresh]
        gen_ = lambda t: z3.substitute(t, *subst) if subst else t
        elem = f'arrlist[{r.elem}]'
        es = S.sort_of(elem)
        outer = p.fresh('comp_a', z3.ArraySort(z3.IntSort(), es))
        rname = S.record_name(es)
        facts = [gen_(a) for a in added if not any(a.eq(x) for x in added_ax)]
        facts.append(z3.Select(outer, j) == S.rec_make(rname, items=gen_(r.arr), n=gen_(r.n)))
        ax = z3.ForAll([j], z3.Implies(rng, z3.And(*facts)))
        p.path_axioms.append(ax)
        p.pc.append(ax)
        for a in added_ax:
            # quantified facts of the evaluation (already closed formulas over the fresh symbols): generalised the same way
            g = z3.ForAll([j], z3.Implies(rng, gen_(a)))
            p.path_axioms.append(g)
            p.pc.append(g)
        return ArrList(outer, ln, elem)

    def _comp_cond(self, gen, bind):
        """the conjunction of a comprehension's `if` clauses for the bound variables, evaluated without forking
        (calls of local closures are unfolded as if/return chains)"""
        sub = Interp(self.p, self.module, dict(self.env), spec=True, cls=self.cls, fname=self.fname + '<comp>')
        sub.contract = self.contract
        sub.functional_calls = True
        bind(sub)
        conds = []
        for c in gen.ifs:
            t = sub.truth(sub.ev(c), c)
            conds.append(t if z3.is_expr(t) else z3.BoolVal(bool(t)))
        return z3.And(*conds) if conds else z3.BoolVal(True)

    def ex_DictComp(self, n):
        """{k: v for k, v in D.items() if COND(k, v)}  -- a filter of a string-keyed dict:
        a new dict with  keys'[k] == (keys[k] and COND(k, vals[k]))  for all k, and the same values."""
        if len(n.generators) != 1:
            self.oos('dict comprehension with several loops', n)
        gen = n.generators[0]
        it = gen.iter
        if not (isinstance(it, ast.Call) and isinstance(it.func, ast.Attribute) and it.func.attr == 'items' and not it.args
                and isinstance(gen.target, ast.Tuple) and len(gen.target.elts) == 2
                and all(isinstance(e, ast.Name) for e in gen.target.elts)
                and isinstance(n.key, ast.Name) and isinstance(n.value, ast.Name)
                and n.key.id == gen.target.elts[0].id and n.value.id == gen.target.elts[1].id):
            self.oos('dict comprehension that is not a filter `{k: v for k, v in d.items() if ...}`', n)
        src = self.ev(it.func.value)
        dv = self.dictview(src)
        if dv is None and S.is_val(src):
            self.p.oblige('type', Val.is_vdict(src), n, '.items() on a dict value')
            keys, vals = Val.dkeys(src), Val.dvals(src)
        elif dv is not None:
            keys, vals = dv[0](), dv[2]()
        else:
            self.oos('dict comprehension over something that is not a string-keyed dict', n)
        k = self.p.fresh('k', z3.StringSort())
        kn, vn = gen.target.elts[0].id, gen.target.elts[1].id
        cond = self._comp_cond(gen, lambda sub: (sub.env.__setitem__(kn, k), sub.env.__setitem__(vn, z3.Select(vals, k))))
        newkeys = self.p.fresh('filtered', keys.sort())
        ax = z3.ForAll([k], z3.Select(newkeys, k) == z3.And(z3.Select(keys, k), cond))
        self.p.path_axioms.append(ax)
        self.p.pc.append(ax)
        return PRec('DictD', {'dkeys': newkeys, 'dvals': vals})

    def ex_SetComp(self, n):
        """{k for k in D if COND(k)} over the keys of a string-keyed dict (or a set of strings)"""
        if len(n.generators) != 1 or not isinstance(n.generators[0].target, ast.Name) or not isinstance(n.elt, ast.Name) \
                or n.elt.id != n.generators[0].target.id:
            self.oos('set comprehension that is not a filter `{k for k in d if ...}`', n)
        gen = n.generators[0]
        src = self.ev(gen.iter)
        dv = self.dictview(src)
        if dv is not None:
            keys = dv[0]()
        elif S.is_val(src):
            self.p.oblige('type', Val.is_vdict(src), n, 'iteration over a dict value')
            keys = Val.dkeys(src)
        elif z3.is_expr(src) and z3.is_array(src) and src.sort().domain() == z3.StringSort():
            keys = src
        else:
            self.oos('set comprehension over something that is not a string-keyed dict or set', n)
        k = self.p.fresh('k', z3.StringSort())
        cond = self._comp_cond(gen, lambda sub: sub.env.__setitem__(gen.target.id, k))
        newkeys = self.p.fresh('filtered', keys.sort())
        ax = z3.ForAll([k], z3.Select(newkeys, k) == z3.And(z3.Select(keys, k), cond))
        self.p.path_axioms.append(ax)
        self.p.pc.append(ax)
        return newkeys

    def ex_GeneratorExp(self, n):
        return GenExp(n, self)

    def ex_Starred(self, n):
        self.oos('starred expression', n)


@dataclass
class StarV:
    """*args of a symbolic tuple value"""
    value: Any


@dataclass
class PyRange:
    lo: Any
    hi: Any


@dataclass
class OpaqueSeq:
    kind: str  # kind of the opaque elements, or 'func:<generic contract>' for a sequence of callables
    seq: Any  # z3 Seq(Int) of idents

    def elem(self, ident):
        if self.kind.startswith('func:'):
            return FuncVal(self.kind.split(':', 1)[1], ident)
        return Opaque(self.kind, ident)


@dataclass
class GenExp:
    node: ast.GeneratorExp
    interp: Any


LIST_MUT = {'append', 'pop', 'extend', 'clear', 'insert'}

def display_width(text: str) -> int:
    """tatsu.util.strtools.unicode_display_len on a literal: 1 per character, 2 for East Asian wide / fullwidth ones"""
    import unicodedata
    return sum(1 + int(unicodedata.east_asian_width(c) in ('W', 'F')) for c in text)


BUILTINS = {
    'len', 'isinstance', 'bool', 'int', 'str', 'min', 'max', 'range', 'all', 'any', 'getattr', 'hasattr',
    'callable', 'next', 'iter', 'enumerate', 'abs', 'repr', 'sorted', 'hash', 'issubclass', 'super', 'print', 'id',
    'ord', 'chr', 'zip', 'sum', 'old', 'int_ok', 'uint_ok', 'float_ok', 'implies', 'type', 'dict_with', 'dict_get',
    'dict_has', 'seq_eq', 'out_ok', 'out_frame', 'out_ret', 'out_cut', 'out_fail_frame', 'exc_inside', 'exc_is', 'exc_cls', 'exc_id', 'err_cls', 'err_id', 'boundcall', 'top_only', 'store', 'o_none', 'o_ok', 'same_func', 'ismethod', 'is_func', 'ast_walk', 'format', 'is_ok', 'is_err', 'ok_res', 'is_failure', 'grown', 'memo_ok', 'outcome_ok', 'submap', 'forall_keys', 'exists_key', 'is_suffix', 'dataclasses_replace', 'dataclasses_is_dataclass', 'strval',
}


def _mergeable(s) -> bool:
    """an if statement whose branches only assign locals / append to local lists (recursively)"""
    def simple(stmts):
        for st in stmts:
            if isinstance(st, ast.If):
                if not (simple(st.body) and simple(st.orelse)):
                    return False
            elif isinstance(st, (ast.Assign, ast.AugAssign, ast.AnnAssign)):
                tg = st.targets if isinstance(st, ast.Assign) else [st.target]
                if not all(isinstance(t, ast.Name) for t in tg):
                    return False
                if any(isinstance(x, (ast.Call, ast.NamedExpr, ast.Yield)) and not _pure_call(x) for x in ast.walk(st.value) if st.value is not None):
                    return False
            elif isinstance(st, ast.Expr) and isinstance(st.value, ast.Call) and isinstance(st.value.func, ast.Attribute) \
                    and st.value.func.attr == 'append' and isinstance(st.value.func.value, ast.Name):
                if any(isinstance(x, (ast.Call, ast.NamedExpr)) and not _pure_call(x) for a in st.value.args for x in ast.walk(a)):
                    return False
            elif isinstance(st, ast.Pass):
                continue
            else:
                return False
        return True

    if any(isinstance(x, (ast.Call, ast.NamedExpr)) and not _pure_call(x) for x in ast.walk(s.test)):
        return False
    # only the plain accumulate shape  `if c: lst.append(x)`  is merged; decision ifs keep their precise paths
    return len(s.body) == 1 and not s.orelse and simple(s.body) and _has_append_or_assign(s)


def _assign_only(s) -> bool:
    """an if / elif / else chain whose branches only assign local names (contracts opt in with merge_ifs: the values are
    merged with ite, calls in the branches are evaluated under the branch condition)"""
    def simple(stmts):
        for st in stmts:
            if isinstance(st, ast.If):
                if not (simple(st.body) and simple(st.orelse)):
                    return False
            elif isinstance(st, (ast.Assign, ast.AnnAssign)):
                tg = st.targets if isinstance(st, ast.Assign) else [st.target]
                if not all(isinstance(t, ast.Name) for t in tg):
                    return False
                if any(isinstance(x, (ast.NamedExpr, ast.Yield, ast.Await)) for x in ast.walk(st)):
                    return False
            elif isinstance(st, ast.Pass):
                continue
            else:
                return False
        return True
    return not any(isinstance(x, ast.NamedExpr) for x in ast.walk(s.test)) and simple(s.body) and simple(s.orelse)


def _pure_call(x) -> bool:
    return isinstance(x, ast.Call) and isinstance(x.func, ast.Name) and x.func.id in ('str', 'len', 'isinstance', 'int', 'bool')


def _has_append_or_assign(s) -> bool:
    # only merge the "accumulate into a local" shape; ordinary decision ifs keep their precise paths
    return any(isinstance(st, ast.Expr) for st in ast.walk(s) if isinstance(st, ast.Expr)) and \
        any(isinstance(x, ast.Attribute) and x.attr == 'append' for x in ast.walk(s))


def _has_quantifier(e, _cache={}) -> bool:
    seen = set()
    todo = [e]
    while todo:
        x = todo.pop()
        if z3.is_quantifier(x):
            return True
        if z3.is_app(x) and x.decl().name().startswith('spec_') and x.num_args() > 0:
            return True  # recursive spec functions are kept out of the quick feasibility checks
        i = x.get_id()
        if i in seen:
            continue
        seen.add(i)
        todo.extend(x.children())
    return False


def _load(target):
    t = ast.parse(ast.unparse(target), mode='eval').body
    return ast.copy_location(t, target)


def _flatten_bitor(n):
    if isinstance(n, ast.BinOp) and isinstance(n.op, ast.BitOr):
        return _flatten_bitor(n.left) + _flatten_bitor(n.right)
    return [n]


def _is_contextmanager(fn) -> bool:
    return isinstance(fn, ast.FunctionDef) and any(
        ast.unparse(d) in ('contextmanager', 'contextlib.contextmanager') for d in fn.decorator_list
    )
