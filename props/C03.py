"""C03 -- proof part from the contracts tagged C03; bounded API-level comparison on left-recursive schemas."""
from bounded.bC03 import run as bounded  # noqa: F401
