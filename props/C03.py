"""C03 -- proof part from the contracts tagged C03; bounded API-level comparison on left-recursive schemas; histories on one
reused generated parser (the seed table of one parse must not reach the next)."""


def bounded(tier, seed, info):
    from bounded.bC03 import run
    from bounded.bHist import run_parser_histories
    return run(tier, seed, info) + run_parser_histories('C03', tier, seed, only=('lrec',))
