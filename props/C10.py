"""C10 -- see DESIGN.md section 3/C10."""


def bounded(tier, seed, info):
    from bounded.bC10 import run
    from bounded.bHist import run_constant_histories, run_parser_histories
    from bounded.bCfg import run as run_cfg
    # constants evaluated by an earlier parse (any grammar, same process) must not be visible to a later one
    return (run(tier, seed, info) + run_parser_histories('C10', tier, seed) + run_constant_histories('C10', tier, seed)
            + run_cfg('C10', tier, seed))


def lemmas(world, reg, tier):
    from props.C09 import config_frame_item
    return [config_frame_item('C10')]
