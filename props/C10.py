"""C10 -- see DESIGN.md section 3/C10."""
from bounded.bC10 import run as bounded  # noqa: F401
