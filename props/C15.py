"""C15 -- see DESIGN.md section 3/C15."""
from bounded.bC15 import run as bounded  # noqa: F401
