"""C19 -- the packet queue is lossless, in order, exactly once (bounded: inverses, histories, crash points)."""


def bounded(tier, seed, info):
    from bounded.bC19 import run
    from bounded.bHist import run_queue_damage_histories
    return run(tier, seed, info) + run_queue_damage_histories('C19', tier, seed)
