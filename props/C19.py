"""C19 -- the packet queue is lossless, in order, exactly once (bounded: inverses, histories, crash points)."""
from bounded.bC19 import run as bounded  # noqa: F401
