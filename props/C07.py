"""C07 -- see DESIGN.md section 3/C07."""
from bounded.bC07 import run as bounded  # noqa: F401
