"""C06 -- semantic actions (proof part from the contracts tagged C06; bounded histories on reused parsers)."""


def bounded(tier, seed, info):
    from bounded.bHist import run_parser_histories
    return run_parser_histories('C06', tier, seed)
