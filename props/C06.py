"""C06 -- semantic actions: proof part from the contracts tagged C06 (action lookup, semantics_call, exception flow through rule_call /
expcall / Call._parse, the memo table never replays a raw FailedSemantics); bounded: the semantics matrix against the documented
semantics (bC06) and histories on reused parsers."""


def bounded(tier, seed, info):
    from bounded.bC06 import run
    from bounded.bHist import run_parser_histories
    return run(tier, seed, info) + run_parser_histories('C06', tier, seed)
