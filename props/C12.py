"""C12 -- see DESIGN.md section 3/C12."""
from bounded.bC12 import run as bounded  # noqa: F401
