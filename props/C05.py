"""C05 -- proof part from the contracts tagged C05; bounded comparison with the oracle on cut grammars."""
from bounded.bC05 import run as bounded  # noqa: F401
