"""C16 -- see DESIGN.md section 3/C16."""
from bounded.bC16 import run as bounded  # noqa: F401
