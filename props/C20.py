"""C20 -- see DESIGN.md section 3/C20."""
from bounded.bC20 import run as bounded  # noqa: F401
