"""C14 -- see DESIGN.md section 3/C14."""
from bounded.bC14 import run as bounded  # noqa: F401
