"""C13 -- see DESIGN.md section 3/C13."""
from bounded.bC13 import run as bounded  # noqa: F401
