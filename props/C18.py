"""C18 -- parallel processing yields exactly one result per payload (bounded schedule enumeration of the real loop)."""
from bounded.bC18 import run as bounded  # noqa: F401
