"""C02 -- the generated parser agrees with the model: the generated-code runtime twins are proved (contracts tagged C02);
model == generated parser is a bounded stand-in (the generator is a printer of python source, outside the reach of pyvc
contracts; see DESIGN section 3/C02).  A generated parser object is reused across parses while the model builds a fresh
context per parse: the histories on one reused parser object (failed parses, parse-time settings) are part of the comparison."""


def bounded(tier, seed, info):
    from bounded.bC02 import run
    from bounded.bHist import run_parser_histories
    return run(tier, seed, info) + run_parser_histories('C02', tier, seed)
