"""C02 -- the generated parser agrees with the model: bounded stand-in (the generator is a printer of python source,
outside the reach of pyvc contracts; see DESIGN section 3/C02)."""
from bounded.bC02 import run as bounded  # noqa: F401
