"""C01 -- proof part from the contracts tagged C01; bounded comparison with the documented-semantics oracle."""
from bounded.bC01 import run as bounded  # noqa: F401
