"""C17 -- see DESIGN.md section 3/C17."""
from bounded.bC17 import run as bounded  # noqa: F401
