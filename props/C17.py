"""C17 -- see DESIGN.md section 3/C17."""


def bounded(tier, seed, info):
    from bounded.bC17 import run
    from bounded.bHist import run_constant_histories
    return run(tier, seed, info) + run_constant_histories('C17', tier, seed)
