"""C04 -- proof part from the contracts tagged C04; bounded API-level transparency runs (memo on/off, tracing, generated parser)."""
from bounded.bC04 import run as bounded  # noqa: F401
