"""C09 -- proof part from the contracts tagged C09 (token rule, next_token, bound() layering); bounded API-level runs;
histories on a reused parser object; frame scan for the configuration attributes."""


def bounded(tier, seed, info):
    from bounded.bC09 import run
    from bounded.bCfg import run as run_cfg
    from bounded.bHist import run_parser_histories
    return run(tier, seed, info) + run_parser_histories('C09', tier, seed) + run_cfg('C09', tier, seed)


def lemmas(world, reg, tier):
    from vlib.framescan import scan_item
    return [config_frame_item('C09')]


def config_frame_item(prop):
    from vlib.framescan import scan_item
    return scan_item(
        prop, 'config-assigned-only-by-constructors-and-bound', ['_active_config', '_config'],
        {'tatsu/contexts/core.py:ParserCore.__init__': 'constructor of a context',
         'tatsu/contexts/engine.py:ParserEngine.bound': 'the function under contract',
         'tatsu/peg/base.py:Grammar.__init__': 'constructor of a grammar model (its own configuration, not a context)',
         'tatsu/boot/bootstrap.py:TatSuBootstrapRules.__init__': 'constructor of the bootstrap rule source'},
        'frame of the with-body of bound(): nothing but the constructors and bound() assigns ._active_config / ._config')
