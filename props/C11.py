"""C11 -- proof part from the contracts tagged C11; bounded API-level keyword runs (model, generated parser, reused parser)."""
from bounded.bC11 import run as bounded  # noqa: F401
