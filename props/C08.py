"""C08 -- bad input and bad grammars are reported as TatSu errors at valid positions."""
