"""C08 -- bad input and bad grammars are reported as TatSu errors at valid positions: proof part from the contracts tagged
C08 (meta matchers never raise and accept only convertible text, token-skipping loops and repetitions terminate, line
lookups are index safe); bounded API-level runs (every parse ends, with a value or a positioned FailedParse)."""
from bounded.bC08 import run as bounded  # noqa: F401
